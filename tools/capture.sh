#!/bin/sh
# tools/capture.sh PROP RUN_SEED KEY : runs one generated run, keeps its minimised replay as findings/KEY.json
cd /verif && SIMLAB_NO_EXCLUDE=1 ./check $1 --run-seed $2 | grep -E "^violation|HARNESS" | cut -c1-300
f=$(ls -t out/scratch/$1-*/$2.json 2>/dev/null | head -1); [ -n "$f" ] && [ -f "$f" ] || f=out/$1/$2.json
cp $f findings/$3.json && echo saved findings/$3.json
