#!/venv/bin/python
"""tools/add_finding.py KEY PROP STATUS COMMIT|- INVARIANT TRIGGER|- 'what'  (replay expected at findings/KEY.json)"""
import json, sys
key, prop, status, commit, inv, trig, what = sys.argv[1:8]
p = '/verif/known_findings.json'
d = json.load(open(p))
d['findings'] = [e for e in d['findings'] if e['key'] != key]
e = {'property': prop, 'key': key, 'status': status, 'invariant': inv,
     'trigger': None if trig == '-' else trig, 'replay': 'findings/%s.json' % key}
if commit != '-':
    e['commit'] = commit
    e['what'] = 'fixed: property=%s %s %s' % (prop, commit, what)
else:
    e['what'] = what
d['findings'].append(e)
json.dump(d, open(p, 'w'), indent=1)
open(p, 'a').write('\n')
