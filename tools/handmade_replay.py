#!/venv/bin/python
"""tools/handmade_replay.py PROP OPS.json OUT.json : run a hand-written op list through the machinery (against the
current /repo tree) and store it as a replay file with the observed failure as expectation."""
import json, os, sys
sys.dont_write_bytecode = True
sys.path.insert(0, '/repo'); sys.path.insert(0, '/verif')
from simlab import core, worlds
prop, ops_path, out = sys.argv[1:4]
spec = json.load(open(ops_path))
W = worlds.load(prop)
hs = int(os.environ.get('PYTHONHASHSEED', '0') or 0)
r = core.run_replay(W, prop, spec['swarm'], spec['ops'], hs)
print('violation:', r.violation, 'harness:', r.harness_error)
if r.violation:
    doc = {'property': prop, 'invariant': r.violation['invariant'], 'run_seed': 0, 'hashseed': hs, 'tier': 'handmade',
           'swarm': spec['swarm'], 'ops': r.ops, 'original_len': len(spec['ops']), 'minimised_len': len(r.ops), 'replays_used': 1,
           'expect': {'invariant': r.violation['invariant'], 'step': r.violation['step'], 'message': r.violation['message'],
                      'event_digest': r.event_digest}, 'pmutt_repo': '/repo'}
    json.dump(doc, open(out, 'w'), indent=1)
    print('saved', out)
