#!/venv/bin/python
"""tools/reach.py PROP [N_RUNS] [file-substring ...]
Line/branch reach of a world inside /repo/pmutt: runs N generated runs of the world in this process under coverage.py and
prints, for the files the property is anchored in (or those matching the substrings), the functions never entered and
the lines never executed.  A guide for the generators, not a check."""
import ast, json, os, sys
sys.path.insert(0, '/verif')
os.environ.setdefault('SIMLAB_REPO', '/repo')
import coverage
prop = sys.argv[1]
n = int(sys.argv[2]) if len(sys.argv) > 2 else 200
subs = sys.argv[3:]
cov = coverage.Coverage(source=[os.path.join(os.environ['SIMLAB_REPO'], 'pmutt')], branch=False, data_file=None)
cov.start()
from simlab import worker, core, worlds, cli
worker.bind_repo()
W = worlds.load(prop)
excluded = cli.excluded_for(prop)
viol = 0
for i in range(n):
    res = core.run_generated(W, prop, core.derive_seed(424242, prop, i), 0, 'quick', excluded)
    viol += 1 if res.violation else 0
cov.stop()
anchors = []
for l in open('/verif/properties.jsonl'):
    d = json.loads(l)
    if d['id'] == prop:
        anchors = d['anchors']['files']
data = cov.get_data()
print('%s: %d runs, %d violations' % (prop, n, viol))
for f in sorted(data.measured_files()):
    rel = f.split('/repo/')[-1]
    if subs:
        if not any(s in rel for s in subs):
            continue
    elif rel not in anchors:
        continue
    _, stmts, _, missing, _ = cov.analysis2(f)
    tree = ast.parse(open(f).read())
    miss = set(missing)
    never = []
    for node in ast.walk(tree):
        if isinstance(node, (ast.FunctionDef, ast.AsyncFunctionDef)):
            body = [s.lineno for s in node.body if not (isinstance(s, ast.Expr) and isinstance(getattr(s, 'value', None), ast.Constant))]
            if body and all(b in miss for b in body[:1]):
                never.append('%s:%d' % (node.name, node.lineno))
    print('\n%s: %d/%d statements executed' % (rel, len(stmts) - len(missing), len(stmts)))
    print('  functions never entered: %s' % ', '.join(never))
