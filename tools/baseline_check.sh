#!/bin/sh
# Runs the pinned baseline suite on /repo and compares with BASELINE.json stable_pass (253 tests).
X=$(mktemp /dev/shm/base-XXXX.xml)
cd /repo && timeout 2400 /venv/bin/python -m pytest -q -p no:cacheprovider --timeout=900 --continue-on-collection-errors --junitxml=$X >/dev/null 2>&1
/venv/bin/python - "$X" <<'PY'
import json, sys, xml.etree.ElementTree as ET
sp=set(json.load(open('/root/.vp/BASELINE.json'))['stable_pass'])
passed=set()
for tc in ET.parse(sys.argv[1]).iter('testcase'):
    if not any(ch.tag in('failure','error','skipped') for ch in tc):
        passed.add(tc.get('classname')+'::'+tc.get('name'))
miss=sorted(sp-passed)
print('baseline: stable_pass=%d passed_now=%d missing=%s' % (len(sp), len(passed), miss[:10]))
sys.exit(1 if miss else 0)
PY
rc=$?; rm -f $X; exit $rc
