#!/venv/bin/python
"""tools/mkmut.py NAME PROP FILE(relative to /repo) 'note' <<< "OLD\n===\nNEW"   -> selftest/mutants/NAME.patch + catalogue entry.
Several replacements may be given, separated by a line '#####'."""
import json, os, shutil, subprocess, sys, tempfile
name, prop, rel, note = sys.argv[1:5]
expect = sys.argv[5] if len(sys.argv) > 5 else 'caught'
spec = sys.stdin.read()
d = tempfile.mkdtemp(prefix='mkmut-', dir='/dev/shm')
try:
    for side in ('a', 'b'):
        os.makedirs(os.path.dirname(os.path.join(d, side, rel)), exist_ok=True)
        shutil.copy(os.path.join('/repo', rel), os.path.join(d, side, rel))
    s = open(os.path.join(d, 'b', rel)).read()
    for part in spec.split('\n#####\n'):
        old, new = part.split('\n===\n')
        old = old.strip('\n'); new = new.strip('\n')
        assert s.count(old) == 1, ('not unique/absent', s.count(old), old)
        s = s.replace(old, new)
    open(os.path.join(d, 'b', rel), 'w').write(s)
    out = subprocess.run(['diff', '-ruN', 'a', 'b'], cwd=d, capture_output=True, text=True).stdout
    assert out
    open('/verif/selftest/mutants/%s.patch' % name, 'w').write(out)
finally:
    shutil.rmtree(d, ignore_errors=True)
p = '/verif/selftest/mutants/catalogue.json'
c = json.load(open(p))
c['mutants'] = [m for m in c['mutants'] if m['name'] != name]
e = {'name': name, 'patch': name + '.patch', 'property': prop, 'note': note}
if expect != 'caught':
    e['expect'] = expect
c['mutants'].append(e)
json.dump(c, open(p, 'w'), indent=1)
print('wrote', name)
