#!/venv/bin/python
"""Regenerates selftest/mutants/revert_<sha>.patch (reverse of each 'fix:' commit in /repo, rebased on HEAD by
applying it to a scratch copy) and merges them into catalogue.json."""
import json, os, shutil, subprocess, sys, tempfile
HERE = '/verif'
kf = json.load(open(HERE + '/known_findings.json'))['findings']
by_commit = {}
for e in kf:
    if e.get('commit'):
        by_commit.setdefault(e['commit'], e['property'])
# reverts that a later repair turned into something the property tolerates (kept as controls: they must not give a harness error)
EITHER = {
    'revert_d7c0795': 'since a378371 (equilibrium solved in relative amounts) a network with dependent element balances no '
                      'longer stalls silently under this revert: SLSQP runs to its iteration limit and get_net_comp warns, '
                      'which the property accepts (failure signalled)',
}
cat_path = HERE + '/selftest/mutants/catalogue.json'
cat = json.load(open(cat_path))
cat['mutants'] = [m for m in cat['mutants'] if not m['name'].startswith('revert_')]
log = subprocess.run(['git', '-C', '/repo', 'log', '--format=%h %s'], capture_output=True, text=True).stdout
for line in log.splitlines():
    sha, subj = line.split(' ', 1)
    if not subj.startswith('fix:'):
        continue
    prop = by_commit.get(sha)
    if prop is None:
        print('no finding for', sha, subj); continue
    d = tempfile.mkdtemp(prefix='mkrev-', dir='/dev/shm')
    try:
        for side in ('a', 'b'):
            shutil.copytree('/repo/pmutt', os.path.join(d, side, 'pmutt'),
                            ignore=shutil.ignore_patterns('__pycache__', 'tests'))
        rev = subprocess.run(['git', '-C', '/repo', 'diff', sha, sha + '~1', '--', 'pmutt'], capture_output=True, text=True).stdout
        p = subprocess.run(['patch', '-p1', '--no-backup-if-mismatch', '-d', os.path.join(d, 'b')], input=rev, capture_output=True, text=True)
        if p.returncode != 0:
            print('revert of', sha, 'does not apply on HEAD:', p.stdout[-300:]); continue
        out = subprocess.run(['diff', '-ruN', 'a', 'b'], cwd=d, capture_output=True, text=True).stdout
        name = 'revert_%s' % sha
        open('%s/selftest/mutants/%s.patch' % (HERE, name), 'w').write(out)
        ent = {'name': name, 'patch': name + '.patch', 'property': prop, 'note': 'revert of ' + subj}
        if name in EITHER:
            ent['expect'] = 'either'
            ent['note'] += ' [' + EITHER[name] + ']'
        cat['mutants'].append(ent)
        print('ok', name, prop)
    finally:
        shutil.rmtree(d, ignore_errors=True)
json.dump(cat, open(cat_path, 'w'), indent=1)
