"""Self-tests: determinism of the simulator, sensitivity to mutants and seeded changes."""
import glob
import json
import os
import shutil
import subprocess
import tempfile
import time

from . import cli, worlds

HERE = cli.HERE


def determinism(props, seed, n_runs=192):
    rc = 0
    for prop in props:
        out_dir = os.path.join(cli.OUT, 'selftest', 'det-' + prop)
        shutil.rmtree(out_dir, ignore_errors=True)
        digs = []
        t0 = time.monotonic()
        for label, ncpu, groups in (('a', 16, 16), ('b', 16, 16), ('c', 3, 16)):
            jobs = cli.make_jobs(prop, 'quick', seed, n_runs, os.path.join(out_dir, label), 600, cli.excluded_for(prop),
                                 want_digests=True, groups=groups)
            results, errors = cli.run_jobs(jobs, ncpu, '/repo', 900, stop_on_violation=False)
            if errors:
                print('HARNESS-ERROR determinism %s/%s: %s' % (prop, label, errors[:2]))
                rc = 2
            m = cli.merge(results)
            digs.append(m['digests'])
        same = digs[0] == digs[1] == digs[2] and len(digs[0]) == n_runs
        # other hash seeds: verdicts must match (no violation in either)
        jobs = cli.make_jobs(prop, 'quick', seed + 1, n_runs, os.path.join(out_dir, 'd'), 600, cli.excluded_for(prop),
                             want_digests=True, groups=16)
        # same run seeds as batch `seed`, but hash seeds of batch seed+1
        base = cli.make_jobs(prop, 'quick', seed, n_runs, os.path.join(out_dir, 'd'), 600, cli.excluded_for(prop),
                             want_digests=True, groups=16)
        jobs = [(g, hs, b[2]) for (g, hs, _), b in zip(jobs, base)]
        results, errors = cli.run_jobs(jobs, 16, '/repo', 900, stop_on_violation=False)
        viol = [r['violation'] for r in results if r.get('violation')]
        m = cli.merge(results)
        differing = sum(1 for k, v in m['digests'].items() if digs[0].get(k) != v)
        print('determinism %s: %d runs x3 identical=%s; under other PYTHONHASHSEEDs: violations=%d, '
              'digests differing=%d/%d (%.1fs)' % (prop, n_runs, same, len(viol), differing,
                                                   len(m['digests']), time.monotonic() - t0))
        if not same:
            bad = [k for k in digs[0] if not (digs[0].get(k) == digs[1].get(k) == digs[2].get(k))]
            print('HARNESS-ERROR determinism %s: %d run seeds diverged, e.g. %s' % (prop, len(bad), bad[:5]))
            rc = 2
        if viol or errors:
            print('HARNESS-ERROR determinism %s: verdict depends on hash seed: %s %s' % (prop, viol[:1], errors[:1]))
            rc = 2
    return rc


def _scratch_repo(patch_path):
    root = '/dev/shm' if os.access('/dev/shm', os.W_OK) else tempfile.gettempdir()
    d = tempfile.mkdtemp(prefix='simlab-mut-', dir=root)
    subprocess.run(['git', '-C', '/repo', 'worktree', 'prune'], capture_output=True)
    shutil.copytree('/repo/pmutt', os.path.join(d, 'pmutt'),
                    ignore=shutil.ignore_patterns('__pycache__', 'tests', '*.pyc'))
    p = subprocess.run(['patch', '-p1', '--no-backup-if-mismatch', '-d', d, '-i', os.path.abspath(patch_path)],
                       capture_output=True, text=True)
    if p.returncode != 0:
        shutil.rmtree(d, ignore_errors=True)
        raise RuntimeError('patch %s does not apply: %s' % (patch_path, p.stdout + p.stderr))
    return d


def run_against(patch_path, prop, seed, tier='quick', runs=None):
    d = _scratch_repo(patch_path)
    try:
        env = cli.worker_env(0, d)
        env.pop('PYTHONHASHSEED')
        env['SIMLAB_NO_EVIDENCE'] = '1'
        env['VERIF_SEED'] = str(seed)
        cmd = [cli.PY, '-m', 'simlab.cli', prop, '--tier', tier, '--repo', d]
        if runs:
            cmd += ['--runs', str(runs)]
        t0 = time.monotonic()
        p = subprocess.run(cmd, env=env, cwd=HERE, capture_output=True, text=True)
        return p.returncode, p.stdout + p.stderr, time.monotonic() - t0
    finally:
        shutil.rmtree(d, ignore_errors=True)


def mutants(seed, only=None, kind='mutants'):
    """Every catalogued mutant must be caught (exit 1 with a VIOLATION line)."""
    if kind == 'mutants':
        cat_path = os.path.join(HERE, 'selftest', 'mutants', 'catalogue.json')
        with open(cat_path) as f:
            cat = json.load(f)['mutants']
        items = [(m['name'], os.path.join(HERE, 'selftest', 'mutants', m['patch']), m['property'],
                  m.get('expect', 'caught')) for m in cat]
    else:
        items = []
        for meta in sorted(glob.glob(os.path.join(HERE, 'seeded', '*', 'meta.json'))):
            with open(meta) as f:
                md = json.load(f)
            items.append((os.path.basename(os.path.dirname(meta)),
                          os.path.join(os.path.dirname(meta), 'patch.diff'), md['property'],
                          md.get('expect', 'caught')))
    rc = 0
    rows = []
    for name, patch, prop, expect in items:
        if only and name not in only and prop not in only:
            continue
        if prop not in worlds.REGISTRY:
            print('%-40s %s not claimed: skipped' % (name, prop))
            continue
        try:
            code, out, wall = run_against(patch, prop, seed)
        except RuntimeError as e:
            print('%-40s %s DOES-NOT-APPLY %s' % (name, prop, str(e)[:120].replace('\n', ' ')))
            rc = 2
            continue
        caught = code == 1 and 'VIOLATION property=%s' % prop in out
        inv = ''
        for line in out.splitlines():
            if line.startswith('violation:'):
                inv = line[:160]
                break
        ok = caught if expect == 'caught' else (code in (0, 1))
        rows.append((name, prop, caught, code, wall))
        print('%-40s %s %s rc=%d %.0fs %s' % (name, prop, 'CAUGHT' if caught else 'MISSED', code, wall, inv))
        if code == 2:
            print(out[-1500:])
        if not ok:
            rc = 2
    n = len(rows)
    c = sum(1 for r in rows if r[2])
    print('%s: %d/%d caught' % (kind, c, n))
    return rc


def main(which, props, seed, mutant=None):
    if which == 'determinism':
        return determinism(props or sorted(worlds.REGISTRY), seed)
    if which in ('mutants', 'seeded'):
        only = set(mutant.split(',')) if mutant else (set(props) if props else None)
        return mutants(seed, only, which)
    print('unknown selftest')
    return 2
