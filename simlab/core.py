"""simlab.core -- seeded scheduler, event log, run/replay, violation classes.

One integer decides a run: every choice in a generated run is drawn from
``random.Random(run_seed)``.  A replay executes a recorded op list and draws
nothing.  Logging never draws from the PRNG and never reads a clock.
"""
import hashlib
import json
import math
import random
import traceback
from collections import Counter

MASK64 = (1 << 64) - 1
DEFAULT_SEED = 20260928


def splitmix64(x):
    x = (x + 0x9E3779B97F4A7C15) & MASK64
    z = x
    z = ((z ^ (z >> 30)) * 0xBF58476D1CE4E5B9) & MASK64
    z = ((z ^ (z >> 27)) * 0x94D049BB133111EB) & MASK64
    return z ^ (z >> 31)


def derive_seed(batch_seed, prop, index):
    """run_seed = f(VERIF_SEED, property, run index); independent of worker count."""
    h = hashlib.sha256(('%d|%s|%d' % (batch_seed, prop, index)).encode()).digest()
    return splitmix64(int.from_bytes(h[:8], 'big')) & ((1 << 53) - 1)


class Violation(Exception):
    """The property under test does not hold on the real code."""

    def __init__(self, invariant, message, detail=None):
        Exception.__init__(self, '%s: %s' % (invariant, message))
        self.invariant = invariant
        self.message = message
        self.detail = detail


class HarnessError(Exception):
    """The harness itself misbehaved (never reported as a violation)."""


class Skip(Exception):
    """Replayed op whose precondition no longer holds (after shrinking)."""


class SimCrash(BaseException):
    """Simulated process death inside a file operation."""


# ---------------------------------------------------------------- canonical

def canon(x):
    """JSON-able canonical form; floats rounded to 12 significant digits."""
    try:
        import numpy as np
    except Exception:  # pragma: no cover
        np = None
    if x is None or isinstance(x, (bool, str)):
        return x
    if isinstance(x, int):
        return x
    if isinstance(x, float):
        if math.isnan(x):
            return 'nan'
        if math.isinf(x):
            return 'inf' if x > 0 else '-inf'
        return float('%.12g' % x)
    if np is not None:
        if isinstance(x, np.generic):
            return canon(x.item())
        if isinstance(x, np.ndarray):
            return [canon(v) for v in x.tolist()]
    if isinstance(x, complex):
        return ['complex', canon(x.real), canon(x.imag)]
    if isinstance(x, dict):
        return {str(k): canon(v) for k, v in sorted(x.items(), key=lambda kv: str(kv[0]))}
    if isinstance(x, (list, tuple)):
        return [canon(v) for v in x]
    if isinstance(x, (set, frozenset)):
        return ['set'] + sorted((canon(v) for v in x), key=lambda v: json.dumps(v, sort_keys=True))
    return '<%s>' % type(x).__name__


def digest(x):
    return hashlib.sha256(json.dumps(canon(x), sort_keys=True).encode()).hexdigest()


# ---------------------------------------------------------------- run context

class Ctx(object):
    """Per-run state shared by the scheduler, the seams and the world."""

    def __init__(self, prop, run_seed, hashseed, tier):
        self.prop = prop
        self.run_seed = run_seed
        self.hashseed = hashseed
        self.tier = tier
        self.rng = None            # random.Random during generation, None in replay
        self.swarm = {}
        self.events = []           # [seq, client, op, args_digest, outcome]
        self.counters = Counter()  # op kinds executed
        self.probes = Counter()    # "rare condition hit"
        self.faults = Counter()    # faults that actually fired
        self.states = set()        # abstract-state digests
        self.step = 0
        self.clock = None          # SimClock when the world uses one
        self.fs = None             # SimFS when the world uses one
        self.excluded = frozenset()  # known-finding triggers not generated
        self.near_miss = Counter()

    def probe(self, name, n=1):
        self.probes[name] += n

    def allow(self, trigger):
        return trigger not in self.excluded


class World(object):
    """Base class of a simulated world (one per claimed property)."""
    PROP = None
    TRIGGERS = {}          # trigger key -> description (known-finding exclusion)
    STATE_CHANGING = ()    # op names counted as state-changing
    PROBES = ()            # probe names that must be reachable
    REAL = ()
    SIMULATED = ()
    MAX_STEPS = 80

    def __init__(self, ctx):
        self.ctx = ctx

    # generation ---------------------------------------------------------
    def gen_swarm(self, rng, tier):
        return {}

    def setup(self, swarm):
        """Build the initial state from the swarm knobs (no PRNG)."""

    def n_steps(self, rng, swarm):
        return rng.randint(10, 40)

    def gen_op(self, rng):
        raise NotImplementedError

    # execution ----------------------------------------------------------
    def apply(self, op):
        """Execute op on real code and model, check invariants; return outcome."""
        raise NotImplementedError

    def finish(self):
        """History checks at the end of a run."""

    def teardown(self):
        pass

    def abstract_state(self):
        return None

    def simplify(self, op):
        """Yield simpler in-quantifier variants of op (for the minimiser)."""
        return ()

    # helpers ------------------------------------------------------------
    def real(self, fn, *a, **kw):
        """Call real pMuTT code whose success the reference model predicts.

        Any exception is a violation ('op-must-succeed') unless its type is
        listed in ``allowed`` (a legitimate refusal), in which case it is
        re-raised for the world to handle.
        """
        allowed = kw.pop('_allowed', ())
        what = kw.pop('_what', getattr(fn, '__name__', 'call'))
        inv = kw.pop('_inv', 'op-must-succeed')
        try:
            return fn(*a, **kw)
        except SimCrash:
            raise
        except allowed:
            raise
        except (Violation, HarnessError, Skip):
            raise
        except Exception as e:
            tb = traceback.extract_tb(e.__traceback__)
            where = ''
            for fr in reversed(tb):
                if '/pmutt/' in fr.filename:
                    where = ' at %s:%d' % (fr.filename.split('/pmutt/', 1)[1], fr.lineno)
                    break
            raise Violation(inv, '%s raised %s: %s%s' % (
                what, type(e).__name__, str(e)[:200], where))


class RunResult(object):
    def __init__(self):
        self.violation = None      # dict(invariant, message, step)
        self.harness_error = None
        self.ops = []
        self.swarm = {}
        self.event_digest = None
        self.n_steps = 0
        self.ctx = None


def _execute(world_cls, ctx, swarm, ops_source, max_steps):
    """Shared by generation and replay. ops_source yields ops lazily."""
    res = RunResult()
    res.ctx = ctx
    res.swarm = swarm
    ctx.swarm = swarm
    ctx.excluded = frozenset(swarm.get('_excluded', ()))
    world = world_cls(ctx)
    try:
        try:
            world.setup(swarm)
            for op in ops_source(world):
                if ctx.step >= max_steps:
                    break
                ctx.step += 1
                rec = dict(op)
                try:
                    outcome = world.apply(op)
                    skipped = False
                except Skip:
                    outcome = 'skipped'
                    skipped = True
                except Violation as v:
                    res.ops.append(rec)
                    ctx.events.append([ctx.step, op.get('c', 0), op['op'],
                                       digest(op.get('args')), 'VIOLATION ' + v.invariant])
                    res.violation = {'invariant': v.invariant, 'message': v.message,
                                     'step': ctx.step}
                    break
                res.ops.append(rec)
                if not skipped:
                    ctx.counters[op['op']] += 1
                    st = world.abstract_state()
                    if st is not None:
                        ctx.states.add(digest(st))
                ctx.events.append([ctx.step, op.get('c', 0), op['op'],
                                   digest(op.get('args')), canon(outcome)])
            if res.violation is None:
                try:
                    world.finish()
                except Violation as v:
                    res.violation = {'invariant': v.invariant, 'message': v.message,
                                     'step': ctx.step + 1}
        finally:
            world.teardown()
    except (Violation, Skip) as e:   # raised outside apply(): harness bug
        res.harness_error = 'stray %s: %s' % (type(e).__name__, e)
    except SimCrash as e:
        res.harness_error = 'SimCrash escaped the world: %r' % (e,)
    except Exception:
        res.harness_error = traceback.format_exc()
    res.n_steps = ctx.step
    res.event_digest = digest(ctx.events)
    return res


def run_generated(world_cls, prop, run_seed, hashseed, tier, excluded=()):
    ctx = Ctx(prop, run_seed, hashseed, tier)
    rng = random.Random(run_seed)
    ctx.rng = rng
    probe = world_cls(ctx)
    swarm = probe.gen_swarm(rng, tier)
    swarm['_excluded'] = sorted(excluded)
    swarm['_n_steps'] = probe.n_steps(rng, swarm)

    def source(world):
        for _ in range(swarm['_n_steps']):
            op = world.gen_op(rng)
            if op is None:
                continue
            yield op

    return _execute(world_cls, ctx, swarm, source, world_cls.MAX_STEPS)


def run_replay(world_cls, prop, swarm, ops, hashseed, tier='replay', run_seed=0):
    ctx = Ctx(prop, run_seed, hashseed, tier)
    ctx.rng = None

    def source(world):
        for op in ops:
            yield op

    return _execute(world_cls, ctx, dict(swarm), source, max(len(ops), 1) + 1)


def same_failure(res, invariant):
    return (res.harness_error is None and res.violation is not None
            and res.violation['invariant'] == invariant)
