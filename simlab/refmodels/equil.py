"""Independent ideal-gas equilibrium solver (element-potential / Gordon-McBride form).

minimise  G(n) = sum_i n_i (c_i + ln(n_i / N)),  N = sum n_i,  c_i = g_i + ln p
subject to A^T n = b, n >= 0.

Unknowns are ln n_i and ln N; each Newton step solves a small (elements+1) system
for the element potentials pi_e and d ln N, then updates ln n_i.  Shares nothing with
pMuTT's SLSQP set-up.
"""
import numpy as np


def gibbs(n, c):
    n = np.asarray(n, dtype=float)
    N = n.sum()
    pos = n > 0
    return float(np.sum(n[pos] * (c[pos] + np.log(n[pos] / N))))


def solve(A, b, c, max_iter=400, tol=1e-13):
    """A: (species x elements), b: element totals (>0), c: g_i + ln p.
    Returns dict(n, lam, converged, resid, iters)."""
    A = np.asarray(A, dtype=float)
    b = np.asarray(b, dtype=float)
    c = np.asarray(c, dtype=float)
    ns, ne = A.shape
    best = None
    scale = float(b.sum())
    for start in range(4):
        if start == 0:
            n = np.full(ns, 0.1 * scale / ns)
        elif start == 1:
            w = np.exp(-(c - c.min()) / 4.0)
            n = 0.1 * scale * w / w.sum() + 1e-8 * scale
        elif start == 2:
            n = np.full(ns, scale)
        else:
            w = np.exp(-(c - c.min()))
            n = scale * w / w.sum() + 1e-12 * scale
        ln_n = np.log(n)
        ln_N = np.log(n.sum())
        ok = False
        it = 0
        for it in range(max_iter):
            n = np.exp(ln_n)
            N = np.exp(ln_N)
            mu = c + ln_n - ln_N
            # assemble reduced system
            M = np.zeros((ne + 1, ne + 1))
            r = np.zeros(ne + 1)
            An = A * n[:, None]
            M[:ne, :ne] = A.T.dot(An)
            M[:ne, ne] = An.sum(axis=0)
            M[ne, :ne] = An.sum(axis=0)
            M[ne, ne] = n.sum() - N
            r[:ne] = b - An.sum(axis=0) + An.T.dot(mu)
            r[ne] = N - n.sum() + n.dot(mu)
            if not (np.all(np.isfinite(M)) and np.all(np.isfinite(r))):
                break
            try:
                sol = np.linalg.lstsq(M, r, rcond=None)[0]
            except np.linalg.LinAlgError:
                break
            pi = sol[:ne]
            dlnN = sol[ne]
            dln = -mu + dlnN + A.dot(pi)
            # damping (CEA): limit growth of major species, pull trace species gently
            lam = 1.0
            big = np.max(np.abs(dln[ln_n - ln_N > -18.4])) if np.any(ln_n - ln_N > -18.4) else 0.0
            big = max(big, 5.0 * abs(dlnN))
            if big > 2.0:
                lam = min(lam, 2.0 / big)
            for i in range(ns):
                if ln_n[i] - ln_N <= -18.4 and dln[i] > 0:
                    lim = abs((-ln_n[i] + ln_N - 9.2103404) / (dln[i] - dlnN)) if dln[i] != dlnN else 1.0
                    lam = min(lam, lim)
            lam = max(lam, 1e-6)
            ln_n = ln_n + lam * dln
            ln_N = ln_N + lam * dlnN
            ln_n = np.maximum(ln_n, ln_N - 690.0)
            # convergence: element balance and stationarity
            n2 = np.exp(ln_n)
            bal = np.max(np.abs(A.T.dot(n2) - b)) / scale
            stat = np.max(np.abs(n2 * dln)) / max(n2.sum(), 1e-300)
            tot = abs(np.exp(ln_N) - n2.sum()) / max(n2.sum(), 1e-300)
            if lam == 1.0 and bal < tol and stat < tol and tot < tol:
                ok = True
                break
        n = np.exp(np.clip(ln_n, -700.0, 700.0))
        if not np.all(np.isfinite(n)) or n.sum() <= 0:
            continue
        N = n.sum()
        mu = c + np.log(n / N)
        # element potentials from the non-trace species
        major = n / N > 1e-12
        lam_e = np.linalg.lstsq(A[major], mu[major], rcond=None)[0]
        resid_major = float(np.max(np.abs(mu[major] - A[major].dot(lam_e)))) if major.any() else 0.0
        bal = float(np.max(np.abs(A.T.dot(n) - b)) / scale)
        # dual feasibility for trace species: mu_i >= a_i.lam  (else it should grow)
        out = {'n': n, 'lam': lam_e, 'converged': bool(ok and resid_major < 1e-8 and bal < 1e-10),
               'resid': resid_major, 'balance': bal, 'iters': it + 1, 'G': gibbs(n, c)}
        if out['converged']:
            return out
        if best is None or (out['balance'] < 1e-8 and out['G'] < best['G']):
            best = out
    if best is None:
        best = {'n': np.full(ns, np.nan), 'lam': np.zeros(ne), 'converged': False, 'resid': np.inf,
                'balance': np.inf, 'iters': max_iter, 'G': np.inf}
    return best
