"""ddmin over recorded ops + per-world argument simplification."""
import time

from .core import run_replay, same_failure


def minimise(world_cls, prop, swarm, ops, hashseed, invariant, budget_s=60.0):
    """Return (ops, swarm, n_replays).  Keeps a candidate only if the same
    invariant id of the same property still fails."""
    t_end = time.monotonic() + budget_s
    n = [0]

    def fails(cand_ops, cand_swarm=None):
        n[0] += 1
        r = run_replay(world_cls, prop, cand_swarm or swarm, cand_ops, hashseed)
        return same_failure(r, invariant)

    # truncate after the failing step
    r = run_replay(world_cls, prop, swarm, ops, hashseed)
    n[0] += 1
    if not same_failure(r, invariant):
        return ops, swarm, n[0], False
    ops = list(r.ops)

    # 1. ddmin over ops
    chunk = max(1, len(ops) // 2)
    while chunk >= 1 and time.monotonic() < t_end:
        i = 0
        changed = False
        while i < len(ops) and time.monotonic() < t_end:
            cand = ops[:i] + ops[i + chunk:]
            if cand and fails(cand):
                ops = cand
                changed = True
            else:
                i += chunk
        if chunk == 1 and not changed:
            break
        chunk = chunk // 2 if chunk > 1 else (1 if changed else 0)

    # 2. strip faults / clock jumps attached to ops
    for i in range(len(ops)):
        if time.monotonic() >= t_end:
            break
        for key in ('fault', 'jump'):
            if ops[i].get(key) is not None:
                cand = [dict(o) for o in ops]
                cand[i][key] = None
                if fails(cand):
                    ops = cand

    # 3. argument simplification supplied by the world
    probe = world_cls.__new__(world_cls)
    progress = True
    rounds = 0
    while progress and time.monotonic() < t_end and rounds < 6:
        progress = False
        rounds += 1
        for i in range(len(ops)):
            if time.monotonic() >= t_end:
                break
            try:
                cands = list(probe.simplify(ops[i]))
            except Exception:
                cands = []
            for c in cands:
                if time.monotonic() >= t_end:
                    break
                if c == ops[i]:
                    continue
                cand = ops[:i] + [c] + ops[i + 1:]
                if fails(cand):
                    ops = cand
                    progress = True
                    break

    # 4. swarm simplification supplied by the world
    try:
        scands = list(probe.simplify_swarm(swarm)) if hasattr(probe, 'simplify_swarm') else []
    except Exception:
        scands = []
    for sc in scands:
        if time.monotonic() >= t_end:
            break
        if fails(ops, sc):
            swarm = sc

    # final truncation
    r = run_replay(world_cls, prop, swarm, ops, hashseed)
    n[0] += 1
    ok = same_failure(r, invariant)
    if ok:
        ops = list(r.ops)
    return ops, swarm, n[0], ok
