"""Regenerates /verif/MANIFEST.json from the worlds that exist:  python -m simlab.manifest"""
import json
import os

from . import worlds

HERE = os.path.dirname(os.path.dirname(os.path.abspath(__file__)))

BASELINE_OFF = ('cd /repo && /venv/bin/python -m pytest -ra -q -p no:cacheprovider --timeout=900 '
                '--continue-on-collection-errors')

NA = {
    'C02': 'polynomial evaluators and segment selection are stateless functions of (coefficients, bounds, T); '
           'no seam, no persistent state, so there is no schedule, fault or history for a simulator to control '
           '(generating inputs from a seed would be property-based testing, not simulation).',
    'C03': 'fitting is one synchronous call mapping a data set to coefficients; solver failure is outside the '
           'statement and no state survives the call; nothing for a scheduler or fault injector to act on.',
    'C04': 'dimensional wrappers copy their keywords and multiply by a per-call table lookup; stateless, no seam.',
    'C09': 'barriers and pre-exponential factors are recomputed from their arguments on every call; no operation '
           'in its quantifier changes cached state; pure function of inputs and configuration.',
    'C12': 'unit and constant tables are literals rebuilt per call; deciding them is finite enumeration of a table, '
           'not simulation; no state, clock, I/O or interleaving.',
    'C14': 'printer, parser, balance check and formula parser are pure string functions of their arguments.',
    'C15': 'all I/O is inside pandas.read_excel; pMuTT code never sees a partial read, an error or an ordering '
           'decision; the row/column mapping is a pure function of the parsed frame.',
    'C18': 'range compression and CTI line wrapping are pure functions of their list argument.',
    'C19': 'grid evaluation, arg-min and energy span are pure functions of the reaction list and the grid; '
           'PhaseDiagram copies its list and caches nothing.',
    'C20': 'closed-form / numpy.roots functions of the state variables; no state, no seam.',
}

TEXT = {
    'C17': ('Seeded search over histories (construct / insert / pop / pop(0) / evaluate / JSON reload) on 1-3 '
            'PiecewiseCovEffect objects, optionally built from the same caller lists, by 1-3 simulated clients. '
            'After every step every effect in the pool is judged: breakpoints ascending, slopes paired, pair multiset '
            'equal to an independent reference model, U(x)*R*T equal to the integral of the listed slopes at coverages '
            'on / between / beyond the breakpoints, H=U=G=F, S=Cp=Cv=0, T-independence, refused operations change '
            'nothing, reload changes nothing. Sampling, not enumeration: a clean batch is evidence, not proof.',
            'DESIGN.md 3.17'),
}

TEXT['C13'] = (
    'Seeded search over histories on Nasa / Nasa9 / Shomate species (phases g, gas, G, s, S, None) built from '
    'caller-owned model lists that several constructors may share: construct, attach, reorder, copy / deepcopy, '
    '1-4 to_dict/from_dict or encoder/hook cycles, evaluate Cp/H/S/G at scalar T or arrays of 1-50 with P and '
    'per-species coverage blocks. After every step every species is judged: number of pressure adjustments equals what '
    'its owner attached or enabled (structurally and as S(7 bar)-S(1 bar) = -n ln 7), number of coverage models '
    'unchanged; every evaluation equals the bare polynomial (twin species without models) plus the sum of each attached '
    'model under an independent keyword router, element-wise for arrays. Sampling, not enumeration.',
    'DESIGN.md 3.13')

TEXT['C05'] = (
    'Seeded search over histories of write_thermdat / read_thermdat calls by 1-3 simulated clients over 1-4 paths of a '
    'fault-injecting file system (SimFS: open/write/close errors, ENOSPC after k characters, process crash at pre_open, '
    'post_open, mid_write, pre_close, read-open and mid-read errors) under a simulated clock with jumps. Oracle: reference '
    'file system (path -> last acknowledged species list | undefined); acknowledged writes are complete, follow the '
    'fixed-column layout (independent column parser: 80 columns, record number in column 80, 15-character coefficient '
    'fields, composition in 25-44, phase in 45, date = simulated clock) and read back to the same species in order (names, '
    'phases, element counts, bounds to 0.1 K, 14 coefficients to 9 significant digits); faults are signalled, a failed open '
    'leaves the old content, the next clean write recovers fully, reads never modify the disk, torn files are never judged. '
    'In the thorough tier sampled writes are additionally re-run under every single-fault placement (fault enumeration inside '
    'sampled histories). Fault-free and faulting configurations are separate swarm settings.',
    'DESIGN.md 3.5')

TEXT['C16'] = (
    'Seeded search over histories on Equilibrium objects: networks of 2-12 generated NASA-7 species over 1-4 elements (full-rank '
    'and rank-deficient element matrices, spans up to 60), built from a list, a dict or a thermdat file on the simulated disk '
    '(read faults), solved repeatedly at many (T, P) on the same object and on twins with permuted species order, with the '
    'solver seam injecting iteration caps, exceptions and premature success. Oracle by outcome: a silent return is judged as '
    'the equilibrium (atoms conserved to 1e-8, amounts >= 0, fractions sum to 1, Gibbs energy within 1e-7 x span per mole of an '
    'independent element-potential Newton optimum, species above 1e-3 mole fraction at reaction equilibrium to 1e-3 RT, same '
    'answer on reuse and under permutation); an unconverged or raising solver must end in a warning or an exception. Inputs '
    'whose equilibrium holds a species below 1e-6 mole fraction are a recorded known finding (SLSQP stalls) and are judged '
    'for conservation only. Thorough tier re-runs sampled solves under every solver policy.',
    'DESIGN.md 3.16')

TEXT['C11'] = (
    'Seeded search over build / edit / encode / decode / decode-the-same-dictionary-again / re-encode histories on object '
    'graphs of every class in the quantifier (all mode models, StatMech with references and misc models, Nasa, Nasa9, '
    'SingleNasa9, Shomate, Reference(s), GasPressureAdj, PiecewiseCovEffect, CatSite, BEP, Reaction, ChemkinReaction, '
    'SurfaceReaction, Reactions, PhaseDiagram, equations of state; species shared between reactions), through the real JSON '
    'encoder and object hook and through to_dict/json_to_pmutt, 1-4 cycles. Oracle after every cycle: same class; every public '
    'get_* whose required parameters a fixed pool of scalar conditions can fill returns the same value (NaN-aware, same '
    'exception type); identifying attributes equal; the dictionary handed to the decoder equals its pre-call deep copy; the '
    'second decode of the same dictionary equals the first. Defects the pinned tests forbid repairing are recorded known '
    'findings with their triggers excluded from generation.',
    'DESIGN.md 3.11')

TEXT['C10'] = (
    'Seeded search over histories on 1-3 References objects (1-8 reference species over 1-5 descriptors, elements or a custom '
    'descriptor dictionary, full-rank / rank-deficient / over-determined, equal or slightly different T_ref) edited by append, '
    'extend, pop, remove, __setitem__, refit, construction with given offsets, and shared by several target StatMech species, '
    'including JSON reloads of targets. At every fit event, for the list as it then is: least-squares residual orthogonal to '
    'the descriptor matrix (A^T r = 0), zero residual and every reference reproduced through the public StatMech path when the '
    'references determine the offsets. After every step, for every target and whatever the offsets: H(on)-H(off) and '
    'G(on)-G(off) equal -sum(offset*composition)*T_ref/T (independent of T in energy units), zero for S, Cp, Cv, and '
    'use_references=False equals the species without references. The list held by the object mirrors an independent list model.',
    'DESIGN.md 3.10')

TEXT['C08'] = (
    'Claimed for its two aliasing clauses (per-species keyword routing over shared species; caller condition dictionaries '
    'left unmodified) with the algebraic clauses as step invariants. Seeded search over histories in which 1-3 clients build '
    '3-9 species (StatMech, Nasa, Shomate) shared by 1-8 Reaction / ChemkinReaction / SurfaceReaction objects (1-4 species a '
    'side, coefficients 0.25-4, 0-2 transition-state species, species on both sides, from_string), keep 1-3 condition '
    'dictionaries with nested <name>_kwargs blocks that are re-used and edited between calls, edit species parameters, and '
    'evaluate state / delta / activation / Keq getters with every (rev, act). Oracle: deep-copy snapshot equality of the '
    'dictionary after every call; an independent router and an independent stoichiometric sum over the species\' own getters '
    'give every state value, hence Hess, reversal antisymmetry, forward - reverse activation = change, partition-function '
    'ratios, K = exp(-dG/RT), Kf x Kr = 1; after every step every reaction is re-checked at a fixed condition (staleness).',
    'DESIGN.md 3.8')

TEXT['C01'] = (
    'Claimed because the values a vibrational / electronic mode reports come from caches that only some edits refresh: a species '
    '"assembled with parameters p" is reachable by construction or by any sequence of edits ending in p. Seeded search over '
    'histories in which 1-3 clients build 1-4 StatMech species from mode objects that may be shared between species, edit public '
    'parameters of modes (wavenumbers, imaginary_substitute, Bav, v0, alpha, spin, energies, rotor data, masses), swap modes and '
    'evaluate. After every step every species is compared, getter by getter, with a species freshly built from the same public '
    'parameters (cache coherence; sharing makes one edit reach every owner) and must satisfy G=H-TS, F=U-TS, H-U in {1,0}; on '
    'evaluation steps also Cv=dU/dT, Cp=dH/dT, dS/dT=Cp/T (5-point Richardson differences), S(P2)-S(P1)=-ln(P2/P1), verbose '
    'entries summing/multiplying to the total and equal to the mode\'s own value, and the textbook closed forms of the harmonic '
    'oscillator, Sackur-Tetrode translation, rigid rotor and ground-state electronic mode; geometry-derived parameters of G2 '
    'molecules under rigid motions and atom permutations. Two formula defects pinned by the test suite are recorded known '
    'findings and only the affected clause is withheld.',
    'DESIGN.md 3.1')

TEXT['C06'] = (
    'Seeded search over histories in which 1-3 clients write the five Chemkin files of one or two generated mechanisms (1-40 '
    'ChemkinReactions over gas, surface and bulk Nasa species on 1-3 CatSites, adsorption or not, with or without transition '
    'states, stoichiometry 1-3) in any order, repeatedly, to 1-4 paths of a fault-injecting file system or as text, with every '
    'activation-method name, unit, float/stoichiometry format, delimiter and newline, under a simulated clock with jumps and '
    'varying hash seeds, and read gas.inp/surf.inp back with read_reactions. Oracle: an independent section parser (ELEMENTS / '
    'SPECIES / SITE / BULK / REACTIONS, EA tables, T_flow and tube tables) requires every element, species, site and reaction '
    'exactly once in the file where it belongs, declared counts equal to the entries that follow, and every printed number equal, '
    'to the printed precision, to the value obtained from a twin mechanism rebuilt from the same description and called afresh '
    'with pristine arguments (exposes state carried between reactions or between writes); equations read back to the same species '
    'and stoichiometry. Disk clauses as C05 (signalled faults, failed open leaves content, full recovery by the next clean write, '
    'reads never write); thorough tier enumerates every single-fault placement on sampled writes.',
    'DESIGN.md 3.6')

TEXT['C07'] = (
    'Seeded search over histories in which modeller and writer clients interleave over one generated mechanism (species of '
    'NASA-7 / NASA-9 / Shomate type on a gas, a bulk and 1-2 interacting-interface phases; 0-40 SurfaceReactions with user, '
    'auto or mixed ids, adsorption or not, explicit transition states, BEPs or given A/Ea; 0-10 named or unnamed lateral '
    'interactions): phases are built with, without or with an empty species list or by organize_phases (fresh or re-used rows, '
    'before or after species were placed) and populated by append / extend / remove / pop / clear; write_cti, '
    'write_thermo_yaml and write_yaml are called repeatedly with reordered and partial reaction lists, every supported unit '
    'system, Motz-Wise on/off, Python / NumPy / string-with-unit / omitted reactor values, fresh or re-used option '
    'dictionaries, to a fault-injecting file system or as text, under a simulated clock. Oracle: every phase lists exactly '
    'what an independent membership model says after every step; the thermo YAML loads with yaml.safe_load and the CTI text '
    'executes under the repo\'s own CTI interpreter; each species once with composition, occupancy, ranges and coefficients; '
    'each reaction once, at its position, with a unique id and rate parameters equal to those of a twin model in the requested '
    'units; phases with their species, elements and site density; interactions with members, thresholds and converted '
    'strengths; reactor YAML carries every supplied value with its unit and nothing else. Disk clauses as C05.',
    'DESIGN.md 3.7')

TECHNIQUE = 'deterministic simulation with fault injection (seeded schedule/history search, reference-model oracle, ddmin replay)'


# what the generators learnt from the seeded changes of round 2 (DESIGN.md 9.3)
ALSO = {
    'C01': ' Also generated: whole-number and list-typed wavenumbers, in-place edits (x *= f; mutate and assign back), a '
           'linear-scaling electronic mode, user-set constant modes (additivity clause only), harmonic q at both energy zeros.',
    'C05': ' Also: every clean write is followed by a second generation (the species just read are written and read again), '
           'and a supplementary record may share a name with a list species.',
    'C06': ' Also generated: pressure series at one temperature in write_EA, sticking coefficients 0 and 1, one equal CatSite '
           'object per species.',
    'C07': ' Also generated: published-style adsorbate names (hyphens) and up to 12 adsorbates per surface so that CTI lists wrap.',
    'C08': ' Also generated: BEP relations as transition states shared by several reactions (independent Ea model), species '
           'names differing only in case or by a prefix/suffix.',
    'C10': ' extend() is given lists, tuples, generators and iterators.',
    'C11': ' Also: clear_offset() as an edit, and a restart op in which the JSON text is decoded by a fresh interpreter that '
           'imported nothing but pmutt.io.json (only the durable text survives).',
    'C13': ' The pressure adjustment is also handed over in its serialised (dictionary) form.',
    'C16': ' The solver seam can also give up with an SLSQP exit mode 3-9 at a feasible non-optimal point, the thermdat '
           'route rewrites the file in place between two loads, feeds span micromoles to kilomoles, and signals are judged '
           'under the default warning filters.',
    'C17': ' Also: integer-typed slopes, and dictionaries kept by the caller and restored after later edits.',
}
ALSO['C01'] += ' The geometry op builds a species from the Atoms object; options are sent through the species switched off.'
ALSO['C05'] += ' Upper-case element symbols; rewrite of the same objects after in-place edits.'
ALSO['C06'] += ' Barriers are anchored in the species\' own getters; formats without a decimal point.'
ALSO['C07'] += ' Swap op, writes of a model under construction, declared zero barriers, non-ASCII names.'
ALSO['C08'] += ' numpy/int truth flags, equilibrium constant of activation, Arrhenius Ea with explicit molecularity.'
ALSO['C10'] += ' Fractional compositions.'
ALSO['C11'] += ' Digit-string ids.'
ALSO['C13'] += ' Whole-number temperatures.'
# round 4
ALSO['C01'] += ' One reused conditions dictionary per species; rejected assignments.'
ALSO['C05'] += ' File times come from the simulated clock (same-length overwrites within a tick), lasting faults, a Latin-1 writer locale.'
ALSO['C06'] += ' Same-length variant mechanisms rewritten to the same name within a clock tick.'
ALSO['C07'] += ' Lasting faults.'
ALSO['C08'] += ' In-place coefficient edits, twin reactions from one string, rejected calls.'
ALSO['C10'] += ' Clones, clear_offset, in-memory dictionary copies; offsets change only through their own object.'
ALSO['C11'] += ' Objects with a past (evaluations, refused mutators, nested edits) before encoding.'
ALSO['C13'] += ' In-place attach.'
ALSO['C16'] += ' Stored bytes may change between write and load (NaN field, non-UTF-8 byte).'
ALSO['C17'] += ' Snapshot copies.'
# leaked handles and round 5
ALSO['C05'] += ' Handles left open by a failed call are finalised later: an acknowledged file must not change.'
ALSO['C06'] += ' Leaked-handle finalisation; the prefactor is anchored in the constants table and the sites.'
ALSO['C07'] += ' Leaked-handle finalisation; NASA-9 entries judged range by range.'
ALSO['C08'] += ' The relations are also judged in five energy units and with the zero-point energy included.'
ALSO['C10'] += ' Evaluations within millikelvins of T_ref; temperature through the species block.'
ALSO['C11'] += ' Fitted T_mid values observed at the boundary; coverage passed to the getters.'
ALSO['C16'] += ' Temperature-dependent heat capacities; species used above their fitted range.'
ALSO['C01'] += ' Integer temperatures.'
# round 6
ALSO['C01'] += ' Misc models on species; rotational temperatures against the principal moments of inertia.'
ALSO['C07'] += ' Capitalised phase names, reactor initial states, each phase\'s mechanism links.'
ALSO['C08'] += ' Species with user-set constant modes; H and G for the Chemkin and surface classes; q of activation.'
ALSO['C10'] += ' G with references off, in energy units.'
ALSO['C11'] += ' Offsets-only References; models appended after construction.'
ALSO['C13'] += ' Coverage term computed from its definition; coverages 0 and 1.'
ALSO['C17'] += ' Dimensional getter, numpy indices, exports leave the object unchanged.'
# round 7
ALSO['C05'] += ' An allocation may fail at a seeded instant of the writer call (the file that was there must survive); records padded with blanks by a tool; decimal-comma locale.'
ALSO['C06'] += ' Failing allocations inside the writer; writes through symbolic links and from changing working directories; CR line ends.'
ALSO['C07'] += ' Failing allocations inside the writer (failed call leaves the old file, absorbed failure must leave the right file); symbolic links; working directories.'
# (round 8 additions follow the round-7 block)
ALSO['C16'] += ' The previous file at the name may be longer; the stored file may be cut short; warnings promoted to errors; failing allocations inside get_net_comp.'

# round 8
ALSO['C08'] += ' Coefficients handed over as numpy arrays.'
ALSO['C13'] += ' Keyword order of the conditions shuffled.'
ALSO['C06'] += ' Reactions printed, compared and serialised between writes.'
ALSO['C07'] += ' Objects printed, compared and serialised between writes.'

# round 9
ALSO['C05'] += ' The largest file of the quantifier (200 species and a comment banner, beyond 64 KiB).'
ALSO['C06'] += ' Species with mole fraction 0 in every run.'
ALSO['C07'] += ' The reaction ids each CTI phase lists are expanded and compared; adjacent numbers across two id prefixes.'
ALSO['C08'] += ' Gas species next to their phase-tagged adsorbed forms.'
ALSO['C10'] += ' References off together with element entropies.'
ALSO['C13'] += ' Heating/cooling cycles (first and last temperature equal).'


def build():
    checks = []
    for prop in sorted(worlds.REGISTRY):
        text, ref = TEXT[prop]
        text = text + ALSO.get(prop, '')
        checks.append({
            'property_id': prop,
            'quick_cmd': './check %s --tier quick' % prop,
            'thorough_cmd': './check %s --tier thorough' % prop,
            'evidence_file': 'evidence/%s.json' % prop,
            'replay_cmd_template': './check %s --replay {path}' % prop,
            'engine': 'simlab',
            'level_claimed': {'category': 'exploration', 'text': text, 'design_ref': ref},
            'level_note': ('Trusted base: the simlab engine and this world\'s reference model and tolerances; NumPy/SciPy/'
                           'json/PyYAML run as real code; single-threaded call-level interleaving only; sampled, not exhaustive.'),
            'technique': TECHNIQUE,
        })
    na = [{'property_id': k, 'reason': v} for k, v in sorted(NA.items())]
    for prop in ('C01', 'C05', 'C06', 'C07', 'C08', 'C10', 'C11', 'C13', 'C16', 'C17'):
        if prop not in worlds.REGISTRY:
            na.append({'property_id': prop,
                       'reason': 'applicable per DESIGN.md but its world is not built yet in this commit; not claimed.'})
    doc = {
        'version': 1,
        'setup_cmd': './check --setup',
        'hooks': {
            'guard': 'PMUTT_VERIF',
            'enable': 'none needed: every seam (open, datetime, minimize) is bound from outside by rebinding '
                      'module attributes inside the worker process; /repo carries no hook',
            'baseline_off_cmd': BASELINE_OFF,
            'source_commits': [],
            'add_only': True,
        },
        'engines': [{'name': 'simlab', 'path': 'simlab/', 'serves_properties': sorted(worlds.REGISTRY),
                     'kind_free_text': 'own seeded deterministic simulator: scheduler over simulated clients, '
                                       'SimFS/SimClock/SimSolver seams, reference models, ddmin, fresh-process replay'}],
        'checks': checks,
        'not_applicable': sorted(na, key=lambda e: e['property_id']),
        'notes': 'See DESIGN.md. known_findings.json lists genuine defects (fixed or recorded). '
                 './check --selftest determinism|mutants|seeded runs the self-tests.',
    }
    with open(os.path.join(HERE, 'MANIFEST.json'), 'w') as f:
        json.dump(doc, f, indent=1)
        f.write('\n')
    return doc


if __name__ == '__main__':
    d = build()
    print('claimed:', [c['property_id'] for c in d['checks']])
