"""Driver: ./check <ID> --tier quick|thorough | --replay FILE | --setup | --selftest ..."""
import argparse
import json
import os
import re
import shutil
import subprocess
import sys
import tempfile
import time

sys.dont_write_bytecode = True

HERE = os.path.dirname(os.path.dirname(os.path.abspath(__file__)))
PY = '/venv/bin/python'
OUT = os.path.join(HERE, 'out')
LOGS = 'logs-%d' % os.getpid()

from .core import DEFAULT_SEED, derive_seed, splitmix64   # noqa: E402
from . import worlds                                        # noqa: E402

GROUPS = {'quick': 16, 'thorough': 64}


def worker_env(hashseed, repo, mode='normal'):
    """The complete environment of a worker: built from scratch, so that a worker's start-up (and with it the layout of
    its heap) does not depend on what the caller happens to have exported.  `mode` has a fixed width for the same reason."""
    env = {k: os.environ[k] for k in ('PATH', 'HOME', 'LD_LIBRARY_PATH', 'TMPDIR') if k in os.environ}
    env.update({
        'LANG': 'C.UTF-8', 'PYTHONHASHSEED': str(hashseed), 'OMP_NUM_THREADS': '1',
        'OPENBLAS_NUM_THREADS': '1', 'MKL_NUM_THREADS': '1', 'MPLBACKEND': 'Agg',
        'PYTHONWARNINGS': 'default', 'TZ': 'UTC', 'PYTHONDONTWRITEBYTECODE': '1',
        'SIMLAB_REPO': repo, 'PYTHONPATH': HERE, 'PYTHONUNBUFFERED': '1', 'PYTHONUTF8': '1',
        'SIMLAB_MODE': {'normal': 'normal', 'nomin': 'nomin '}[mode],
    })
    return env


def _no_aslr():
    """Command prefix that switches address-space randomisation off for a worker (object addresses, hence id()-keyed
    behaviour, then repeat from process to process); empty when setarch is not available."""
    global _NO_ASLR
    if _NO_ASLR is None:
        _NO_ASLR = []
        exe = shutil.which('setarch')
        if exe:
            try:
                arch = os.uname().machine
                if subprocess.run([exe, arch, '-R', 'true'], capture_output=True, timeout=20).returncode == 0:
                    _NO_ASLR = [exe, arch, '-R']
            except Exception:
                _NO_ASLR = []
    return _NO_ASLR


_NO_ASLR = None


def hashseed_for(batch_seed, group):
    return 1 + splitmix64(batch_seed * 1000003 + group) % 4093


def parse_result(path):
    try:
        with open(path) as f:
            lines = f.read().splitlines()
    except OSError:
        return None
    for line in reversed(lines):
        if line.startswith('RESULT:'):
            return json.loads(line[7:])
    return None


def load_known(prop):
    path = os.path.join(HERE, 'known_findings.json')
    if not os.path.exists(path):
        return []
    with open(path) as f:
        doc = json.load(f)
    return [e for e in doc.get('findings', []) if e['property'] == prop]


def excluded_for(prop):
    return sorted(set(e['trigger'] for e in load_known(prop) if e['status'] == 'known' and e.get('trigger')))


def _run_seed_prefix(doc, repo, timeout=1800):
    """Execute a seed-prefix replay: the very batch job that failed, same arguments, same argument file, same worker
    environment, ASLR off - only the mode flag (same width) tells the worker not to minimise."""
    args = doc['batch_args']
    d = args['out_dir']
    os.makedirs(os.path.join(d, LOGS), exist_ok=True)
    apath = os.path.join(d, LOGS, 'job%03d.json' % args['group'])
    lpath = os.path.join(d, LOGS, 'job%03d.log' % args['group'])
    with open(apath, 'w') as f:
        json.dump(args, f)
    try:
        p = subprocess.run(_no_aslr() + [PY, '-m', 'simlab.worker', 'batch', apath],
                           env=worker_env(doc['hashseed'], repo, 'nomin'), cwd=HERE,
                           stdout=open(lpath, 'w'), stderr=subprocess.STDOUT, timeout=timeout)
    except subprocess.TimeoutExpired:
        return {'harness_error': 'seed-prefix replay timed out'}
    out = parse_result(lpath)
    if out is None:
        with open(lpath) as f:
            return {'harness_error': 'seed-prefix replay worker exit %s: %s' % (p.returncode, f.read()[-1500:])}
    v = out.get('violation')
    if not v:
        he = out.get('harness_error')
        return {'violation': None, 'harness_error': json.dumps(he)[:1500] if he else None, 'event_digest': None,
                'n_steps': out.get('steps', 0), 'failed_run_seed': None}
    with open(v['replay']) as f:
        got = json.load(f)
    return {'violation': dict(got['expect'], invariant=got['invariant']), 'harness_error': None,
            'event_digest': got['expect']['event_digest'], 'n_steps': out.get('steps', 0),
            'failed_run_seed': got['run_seed']}


def fresh_replay(path, repo, timeout=600):
    with open(path) as f:
        doc = json.load(f)
    if doc.get('kind') == 'seed-prefix':
        return doc, _run_seed_prefix(doc, repo)
    log = tempfile.NamedTemporaryFile('w+', suffix='.log', delete=False, dir=OUT)
    log.close()
    try:
        p = subprocess.run(_no_aslr() + [PY, '-m', 'simlab.worker', 'replay', path],
                           env=worker_env(doc['hashseed'], repo), cwd=HERE,
                           stdout=open(log.name, 'w'), stderr=subprocess.STDOUT,
                           timeout=timeout)
        res = parse_result(log.name)
        if res is None:
            with open(log.name) as f:
                tail = f.read()[-2000:]
            return doc, {'harness_error': 'replay worker exit %s: %s' % (p.returncode, tail)}
        return doc, res
    except subprocess.TimeoutExpired:
        return doc, {'harness_error': 'replay timed out'}
    finally:
        try:
            os.unlink(log.name)
        except OSError:
            pass


def _fresh_fails(doc, ops, repo, tag):
    """Replay `ops` in a brand-new interpreter; True iff the same invariant fails."""
    cand = dict(doc, ops=ops)
    path = os.path.join(OUT, 'cand-%s-%d.json' % (tag, os.getpid()))
    with open(path, 'w') as f:
        json.dump(cand, f)
    try:
        _, res = fresh_replay(path, repo, timeout=300)
    finally:
        try:
            os.unlink(path)
        except OSError:
            pass
    v = res.get('violation')
    return bool(v and not res.get('harness_error') and v['invariant'] == doc['expect']['invariant']), res


def fresh_minimise(doc, repo, budget_s=240):
    """ddmin in which every candidate runs in its own fresh interpreter (used only when a violation depends on
    process-global state, so that in-process minimisation is unsound).  Candidates of one round run in parallel."""
    from concurrent.futures import ThreadPoolExecutor
    ops = list(doc['original_ops'])
    swarm = doc.get('original_swarm', doc['swarm'])
    base = dict(doc, swarm=swarm)
    ok, res = _fresh_fails(base, ops, repo, 'o')
    if not ok:
        return None
    t_end = time.monotonic() + budget_s
    chunk = max(1, len(ops) // 2)
    while chunk >= 1 and time.monotonic() < t_end:
        cands = [(i, ops[:i] + ops[i + chunk:]) for i in range(0, len(ops), chunk) if len(ops) - chunk >= 1]
        hit = None
        with ThreadPoolExecutor(max_workers=8) as ex:
            futs = [(i, c, ex.submit(_fresh_fails, base, c, repo, 'c%d' % i)) for i, c in cands]
            for i, c, fu in futs:
                if hit is None and fu.result()[0]:
                    hit = c
        if hit is not None:
            ops = hit
            chunk = min(chunk, max(1, len(ops) // 2))
        elif chunk == 1:
            break
        else:
            chunk //= 2
    ok, res = _fresh_fails(base, ops, repo, 'f')
    if not ok:
        return None
    new = dict(base, ops=ops, minimised_len=len(ops), minimised_in='fresh interpreters (process-global state involved)')
    new['expect'] = {'invariant': res['violation']['invariant'], 'step': res['violation']['step'],
                     'message': res['violation']['message'], 'event_digest': res['event_digest']}
    new['invariant'] = res['violation']['invariant']
    return new


WALL_FOR = {}


def _ddmin_fresh(items, fails, t_end, parallel=8):
    """ddmin over a list; `fails(candidate)` runs in a fresh interpreter; candidates of one round run in parallel."""
    from concurrent.futures import ThreadPoolExecutor
    chunk = max(1, len(items) // 2)
    while items and chunk >= 1 and time.monotonic() < t_end:
        cands = [(i, items[:i] + items[i + chunk:]) for i in range(0, len(items), chunk)]
        hit = None
        with ThreadPoolExecutor(max_workers=parallel) as ex:
            futs = [(c, ex.submit(fails, c, 'p%d' % i)) for i, c in cands]
            for c, fu in futs:
                if hit is None and fu.result():
                    hit = c
        if hit is not None:
            items = hit
            chunk = min(chunk, max(1, len(items) // 2))
        elif chunk == 1:
            break
        else:
            chunk //= 2
    return items


def prefix_chance(prop, tier, batch_seed, n_runs, run_seed, out_dir, excluded, repo, budget_s=420):
    """Third chance for a violation that depends on what EARLIER runs of the same worker process left behind in the
    library.  The group's runs up to the failing one are re-executed in a fresh interpreter with every run recorded;
    the replay file then carries those earlier runs as a prelude, which is minimised (whole runs first, then the ops of
    the failing run, then the ops of each surviving prelude run), every candidate in its own fresh interpreter."""
    jobs = make_jobs(prop, tier, batch_seed, n_runs, os.path.join(out_dir, 'prefix'), 600, excluded)
    job = None
    for g, hs, args in jobs:
        seeds = [sd for _, sd in args['runs']]
        if run_seed in seeds:
            k = seeds.index(run_seed)
            job = (g, hs, dict(args, runs=args['runs'][:k + 1], record_all=True))
            break
    if job is None:
        return None
    res, err = run_jobs([job], 1, repo, 900)
    v = res[0].get('violation') if res else None
    if not v or v['run_seed'] != run_seed:
        return None
    with open(v['replay']) as f:
        doc = json.load(f)
    ok, r0 = _fresh_fails(doc, doc['ops'], repo, 'x')
    if not ok:
        return None
    t_end = time.monotonic() + budget_s
    prelude = _ddmin_fresh(list(doc['prelude']),
                           lambda c, tag: _fresh_fails(dict(doc, prelude=c), doc['ops'], repo, tag)[0], t_end)
    doc = dict(doc, prelude=prelude)
    ops = _ddmin_fresh(list(doc['ops']), lambda c, tag: bool(c) and _fresh_fails(doc, c, repo, tag)[0], t_end)
    doc = dict(doc, ops=ops)
    for j in range(len(prelude)):
        def fails(c, tag, j=j):
            pre = [dict(p_, ops=c) if i == j else p_ for i, p_ in enumerate(doc['prelude'])]
            return _fresh_fails(dict(doc, prelude=pre), doc['ops'], repo, tag)[0]
        pops = _ddmin_fresh(list(doc['prelude'][j]['ops']), fails, t_end)
        doc = dict(doc, prelude=[dict(p_, ops=pops) if i == j else p_ for i, p_ in enumerate(doc['prelude'])])
    ok, res = _fresh_fails(doc, doc['ops'], repo, 'f')
    if not ok:
        return None
    doc['minimised_len'] = len(doc['ops'])
    doc['minimised_in'] = ('fresh interpreters; the failure needs %d earlier run(s) of the same process (of %d) as a prelude: '
                           'state kept by the library between runs is involved' % (len(doc['prelude']),
                                                                                   doc.get('original_prelude_runs', 0)))
    doc['expect'] = {'invariant': res['violation']['invariant'], 'step': res['violation']['step'],
                     'message': res['violation']['message'], 'event_digest': res['event_digest']}
    doc['invariant'] = res['violation']['invariant']
    with open(v['replay'], 'w') as f:
        json.dump(doc, f, indent=1)
    return dict(v, invariant=doc['invariant'], message=doc['expect']['message'], minimised_len=len(doc['ops']),
                prelude_runs=len(doc['prelude']))


def _fresh_doc_fails(doc, repo, tag):
    """Replay a complete candidate document in a fresh interpreter; True iff the expected invariant fails in the
    expected run."""
    path = os.path.join(OUT, 'cand-%s-%d.json' % (tag, os.getpid()))
    with open(path, 'w') as f:
        json.dump(doc, f)
    try:
        _, res = fresh_replay(path, repo, timeout=1800)
    finally:
        try:
            os.unlink(path)
        except OSError:
            pass
    v = res.get('violation')
    ok = bool(v and not res.get('harness_error') and v['invariant'] == doc['expect']['invariant'] and
              res.get('failed_run_seed', doc['run_seed']) == doc['run_seed'])
    return ok, res


def seed_prefix_chance(prop, tier, batch_seed, n_runs, run_seed, out_dir, excluded, repo, budget_s=240):
    """Last resort for a violation that depends on the exact state of the interpreter (object addresses reused after
    garbage collection, caches keyed on id()): even recording the earlier runs perturbs it.  The batch job that failed is
    executed again exactly - same arguments, same argument file, same environment, ASLR off; a mode flag of the same
    width tells the worker to stop at the violation without minimising - and the replay file is that job: the list of
    run seeds is the schedule.  It must fail again twice; the list is then shortened by ddmin where that still fails."""
    jobs = make_jobs(prop, tier, batch_seed, n_runs, out_dir, WALL_FOR.get((prop, tier), 600), excluded)
    job = None
    for g, hs, args in jobs:
        if run_seed in [sd for _, sd in args['runs']]:
            job = (g, hs, args)
            break
    if job is None:
        return None
    g, hs, args = job
    doc0 = {'kind': 'seed-prefix', 'property': prop, 'hashseed': hs, 'batch_args': json.loads(json.dumps(args)),
            'run_seed': run_seed}
    r = _run_seed_prefix(doc0, repo)
    v = r.get('violation')
    if not v or r.get('failed_run_seed') != run_seed:
        return None
    path = os.path.join(args['out_dir'], '%d.json' % run_seed)
    with open(path) as f:
        doc = json.load(f)
    ok, r2 = _fresh_doc_fails(doc, repo, 's2')        # exactly repeatable, or it is not reported
    if not ok or r2['event_digest'] != doc['expect']['event_digest']:
        return None
    t_end = time.monotonic() + budget_s
    k = [sd for _, sd in doc['batch_args']['runs']].index(run_seed)
    runs = doc['batch_args']['runs'][:k + 1]
    head, last = runs[:-1], runs[-1]

    def fails(c, tag):
        cand = dict(doc, batch_args=dict(doc['batch_args'], runs=c + [last]))
        return _fresh_doc_fails(cand, repo, tag)[0]
    if fails(head, 'h'):
        head = _ddmin_fresh(list(head), fails, t_end, parallel=1)
        doc = dict(doc, batch_args=dict(doc['batch_args'], runs=head + [last]))
    ok, r3 = _fresh_doc_fails(doc, repo, 'sf')
    if not ok:
        with open(path) as f:
            doc = json.load(f)                        # fall back to the unshortened job
        ok, r3 = _fresh_doc_fails(doc, repo, 'sg')
        if not ok:
            return None
    doc['runs'] = doc['batch_args']['runs'][:[sd for _, sd in doc['batch_args']['runs']].index(run_seed) + 1]
    doc['minimised_in'] = ('fresh interpreters; the failure depends on interpreter state (object identities) built up by the %d '
                           'earlier run(s) of its worker: the replay is the batch job itself, the list of run seeds executed in '
                           'order in one process' % (len(doc['runs']) - 1))
    doc['expect'] = {'invariant': r3['violation']['invariant'], 'step': r3['violation']['step'],
                     'message': r3['violation']['message'], 'event_digest': r3['event_digest']}
    with open(path, 'w') as f:
        json.dump(doc, f, indent=1)
    return {'run_seed': run_seed, 'replay': path, 'invariant': doc['invariant'], 'message': doc['expect']['message'],
            'original_len': doc['original_len'], 'minimised_len': doc['minimised_len'],
            'prelude_runs': len(doc['runs']) - 1, 'seed_prefix': True}


def _sweep_scratch(pid):
    """Scratch roots of the simulated file system that a worker (killed when a sibling found a violation, or dead) left behind."""
    import glob
    for d in glob.glob(os.path.join(tempfile.gettempdir() if not os.path.isdir('/dev/shm') else '/dev/shm', 'simlab-%d-*' % pid)):
        shutil.rmtree(d, ignore_errors=True)


def run_jobs(jobs, ncpu, repo, wall_s, stop_on_violation=True):
    """jobs: list of (group, hashseed, args-dict).  Returns (results, errors)."""
    pending = list(jobs)
    running = []
    results, errors = [], []
    t_kill = time.monotonic() + wall_s
    stop = False
    while pending or running:
        while pending and len(running) < ncpu and not stop:
            group, hashseed, args = pending.pop(0)
            mode = args.pop('_mode', 'normal') if isinstance(args, dict) else 'normal'
            d = args['out_dir']
            os.makedirs(os.path.join(d, LOGS), exist_ok=True)
            apath = os.path.join(d, LOGS, 'job%03d.json' % group)
            lpath = os.path.join(d, LOGS, 'job%03d.log' % group)
            if isinstance(args, dict) and 'deadline_s' in args:
                # a group started late (more groups than processors, a loaded machine) stops generating in time for the
                # batch as a whole: fewer runs, reported as such, never a killed worker
                grace = min(240.0, 0.3 * wall_s)
                args['deadline_s'] = max(2.0, min(float(args['deadline_s']), t_kill - time.monotonic() - grace))
            with open(apath, 'w') as f:
                json.dump(args, f)
            p = subprocess.Popen(_no_aslr() + [PY, '-m', 'simlab.worker', 'batch', apath],
                                 env=worker_env(hashseed, repo, mode), cwd=HERE,
                                 stdout=open(lpath, 'w'), stderr=subprocess.STDOUT)
            running.append((p, group, lpath))
        if stop:
            pending = []
        time.sleep(0.05)
        still = []
        for p, group, lpath in running:
            rc = p.poll()
            if rc is None:
                if time.monotonic() > t_kill or stop:
                    p.kill()
                    p.wait()
                    _sweep_scratch(p.pid)
                    if not stop:
                        errors.append('group %d exceeded the wall budget and was killed' % group)
                else:
                    still.append((p, group, lpath))
                continue
            _sweep_scratch(p.pid)
            res = parse_result(lpath)
            if res is None:
                with open(lpath) as f:
                    tail = f.read()[-3000:]
                errors.append('group %d worker exit %s without result:\n%s' % (group, rc, tail))
                continue
            results.append(res)
            if res.get('harness_error'):
                errors.append('group %d: %s' % (group, json.dumps(res['harness_error'])[:3000]))
            if res.get('violation') and stop_on_violation:
                stop = True
        running = still
    return results, errors


def make_jobs(prop, tier, batch_seed, n_runs, out_dir, deadline_s, excluded,
              want_digests=False, groups=None, shrink_wall_s=60, only_seed=None):
    if only_seed is not None:
        args = {'prop': prop, 'tier': tier, 'group': 0, 'runs': [(0, int(only_seed))], 'out_dir': out_dir,
                'deadline_s': deadline_s, 'excluded': sorted(excluded), 'want_digests': want_digests,
                'shrink_wall_s': shrink_wall_s}
        return [(0, hashseed_for(batch_seed, 0), args)]
    G = groups or GROUPS[tier]
    G = max(1, min(G, n_runs))
    jobs = []
    for g in range(G):
        lo = g * n_runs // G
        hi = (g + 1) * n_runs // G
        runs = [(i, derive_seed(batch_seed, prop, i)) for i in range(lo, hi)]
        args = {'prop': prop, 'tier': tier, 'group': g, 'runs': runs, 'out_dir': out_dir,
                'deadline_s': deadline_s, 'excluded': sorted(excluded),
                'want_digests': want_digests, 'shrink_wall_s': shrink_wall_s}
        jobs.append((g, hashseed_for(batch_seed, g), args))
    return jobs


def merge(results):
    from collections import Counter
    m = {'runs': 0, 'steps': 0, 'counters': Counter(), 'probes': Counter(),
         'faults': Counter(), 'near_miss': Counter(), 'seqs': set(), 'states': set(),
         'trigrams': set(), 'samples': [], 'hashseeds': set(), 'sim_time_s': 0.0,
         'clock_jumps': 0, 'stopped_early': 0, 'digests': {}}
    for r in sorted(results, key=lambda r: r['group']):
        m['runs'] += r['runs']
        m['steps'] += r['steps']
        for k in ('counters', 'probes', 'faults', 'near_miss'):
            m[k].update(r[k])
        for k in ('seqs', 'states', 'trigrams'):
            m[k].update(r[k])
        if len(m['samples']) < 3:
            m['samples'].extend(r['samples'][:1])
        m['hashseeds'].add(r['hashseed'])
        m['sim_time_s'] += r.get('sim_time_s', 0.0)
        m['clock_jumps'] += r.get('clock_jumps', 0)
        m['stopped_early'] += 1 if r.get('stopped_early') else 0
        m['digests'].update(r.get('digests', {}))
    return m


def write_evidence(prop, tier, seed, world_cls, m, wall, n_viol, known_lines, extra=None, excluded=()):
    runs = max(m['runs'], 0)
    per_hour = int(runs / wall * 3600) if wall > 0 else 0
    probes = {p: int(m['probes'].get(p, 0)) for p in world_cls.PROBES}
    for k, v in m['probes'].items():
        probes.setdefault(k, int(v))
    cov = {
        'evaluations': int(runs),
        'distinct_nontrivial': len(m['seqs']),
        'rule': ('each evaluation is one seeded simulated run (a history of public pMuTT calls '
                 'by 1-3 simulated clients over a shared object pool, with faults where the world '
                 'has seams); run_seed = f(VERIF_SEED, property, index). A run is non-trivial if it '
                 'contains >= 3 state-changing steps (%s); distinct = distinct op-name sequences '
                 'among those, counted by SHA-256 of the sequence. states = distinct abstract states '
                 '(%s) by digest.' % (', '.join(world_cls.STATE_CHANGING),
                                      getattr(world_cls, 'STATE_RULE', 'world-specific'))),
        'samples': m['samples'] or [{'note': 'no run with >= 3 state-changing steps finished'}],
        'steps': int(m['steps']),
        'states': len(m['states']),
        'op_trigrams': len(m['trigrams']),
        'op_counts': dict(sorted(m['counters'].items())),
        'faults_fired': dict(sorted(m['faults'].items())),
        'probes': dict(sorted(probes.items())),
        'probes_at_zero': sorted(k for k, v in probes.items() if v == 0 and
                                 getattr(world_cls, 'PROBE_TRIGGER', {}).get(k) not in excluded),
        'probes_withheld_by_known_finding': sorted(k for k, v in probes.items() if v == 0 and
                                                   getattr(world_cls, 'PROBE_TRIGGER', {}).get(k) in excluded),
        'near_miss': dict(sorted(m['near_miss'].items())),
        'hashseeds': sorted(m['hashseeds']),
        'simulated_time_s': round(m['sim_time_s'], 3),
        'clock_jumps': int(m['clock_jumps']),
        'runs_per_hour': per_hour,
        'seeds_per_hour': per_hour,
        'groups_stopped_by_deadline': int(m['stopped_early']),
        'real_components': list(world_cls.REAL),
        'simulated_components': list(world_cls.SIMULATED),
        'known_findings_printed': known_lines,
        'exhaustive': False,
    }
    if extra:
        cov.update(extra)
    doc = {
        'property_id': prop, 'tier': tier, 'seed': int(seed), 'level': 'exploration',
        'coverage': cov,
        'assumptions': list(getattr(world_cls, 'ASSUMPTIONS', ())) + [
            'seeded search samples histories and fault placements; a clean batch is evidence, not proof',
            'single-threaded: one step = one public pMuTT call; thread interleavings are not simulated',
        ],
        'wall_s': round(wall, 3), 'violations': int(n_viol),
    }
    os.makedirs(os.path.join(HERE, 'evidence'), exist_ok=True)
    path = os.path.join(HERE, 'evidence', prop + '.json')
    tmp = path + '.tmp'
    with open(tmp, 'w') as f:
        json.dump(doc, f, indent=1, sort_keys=True)
    os.replace(tmp, path)
    return path


def confirm_known(prop, repo):
    """Replay every listed finding.  Returns (known_lines, violations)."""
    lines, viols = [], []
    entries = load_known(prop)
    from concurrent.futures import ThreadPoolExecutor
    with ThreadPoolExecutor(max_workers=8) as pool:          # each replay is a fresh interpreter of its own
        replayed = list(pool.map(lambda e_: fresh_replay(os.path.join(HERE, e_['replay']), repo), entries))
    for e, (doc, res) in zip(entries, replayed):
        rp = os.path.join(HERE, e['replay'])
        if res.get('harness_error'):
            raise RuntimeError('known-finding replay %s: %s' % (e['key'], res['harness_error']))
        v = res.get('violation')
        if e['status'] == 'known':
            if v is None:
                continue                      # no longer fails: nothing printed
            if v['invariant'] == e['invariant']:
                lines.append('KNOWN-FINDING: property=%s %s [%s]' % (prop, e['what'], e['key']))
            else:
                viols.append((rp, 'listed finding %s now fails differently: %s: %s' % (
                    e['key'], v['invariant'], v['message'])))
        else:                                  # fixed: must pass now
            if v is not None:
                viols.append((rp, 'fixed finding %s is back: %s: %s' % (
                    e['key'], v['invariant'], v['message'])))
    return lines, viols


def cmd_check(prop, tier, repo, batch_seed, runs=None, quiet=False, wall=None, only_seed=None):
    rc = None
    try:
        rc = _cmd_check(prop, tier, repo, batch_seed, runs=runs, quiet=quiet, wall=wall, only_seed=only_seed)
        return rc
    finally:
        if rc == 0:
            no_ev = bool(os.environ.get('SIMLAB_NO_EVIDENCE'))
            d = os.path.join(OUT, 'scratch', '%s-%d' % (prop, os.getpid())) if no_ev else os.path.join(OUT, prop, LOGS)
            shutil.rmtree(d, ignore_errors=True)


def _cmd_check(prop, tier, repo, batch_seed, runs=None, quiet=False, wall=None, only_seed=None):
    world_cls = worlds.load(prop)
    t0 = time.monotonic()
    no_evidence = bool(os.environ.get('SIMLAB_NO_EVIDENCE'))
    # two checks of one property may run at the same time (quick next to thorough, a self-test next to a check): each driver
    # keeps its job files in a directory of its own
    out_dir = os.path.join(OUT, 'scratch', '%s-%d' % (prop, os.getpid())) if no_evidence else os.path.join(OUT, prop)
    shutil.rmtree(os.path.join(out_dir, LOGS), ignore_errors=True)
    os.makedirs(out_dir, exist_ok=True)
    n_runs = runs or world_cls.RUNS[tier]
    wall_s = wall or world_cls.WALL[tier]
    excluded = [] if os.environ.get('SIMLAB_NO_EXCLUDE') else excluded_for(prop)
    if os.environ.get('SIMLAB_INCLUDE'):          # generate these known triggers anyway (to capture a replay)
        excluded = [t for t in excluded if t not in os.environ['SIMLAB_INCLUDE'].split(',')]
    ncpu = min(16, os.cpu_count() or 1)
    print('simlab %s tier=%s VERIF_SEED=%d runs=%d groups=%d cpus=%d repo=%s excluded=%s' % (
        prop, tier, batch_seed, n_runs, min(GROUPS[tier], n_runs), ncpu, repo, excluded))
    sys.stdout.flush()
    jobs = make_jobs(prop, tier, batch_seed, n_runs, out_dir, wall_s, excluded, only_seed=only_seed)
    no_evidence = no_evidence or only_seed is not None
    results, errors = run_jobs(jobs, ncpu, repo, wall_s + 240)
    m = merge(results)
    violations = []
    seen_inv = set()
    for r in sorted(results, key=lambda r: r['group']):
        if r.get('violation') and r['violation']['invariant'] not in seen_inv:
            seen_inv.add(r['violation']['invariant'])     # one report per invariant id
            violations.append(r['violation'])
    rc = 0
    verified = []
    second_chance = []          # run seeds whose violation depended on state left in the worker by earlier runs
    for v in violations:
        doc, res = fresh_replay(v['replay'], repo)
        if res.get('harness_error') or not res.get('violation') or \
                res['violation']['invariant'] != doc['expect']['invariant'] or \
                res['violation']['step'] != doc['expect']['step'] or \
                res['event_digest'] != doc['expect']['event_digest']:
            new = fresh_minimise(doc, repo) if doc.get('original_ops') else None
            if new is not None:
                with open(v['replay'], 'w') as f:
                    json.dump(new, f, indent=1)
                verified.append(dict(v, invariant=new['invariant'], message=new['expect']['message'],
                                     minimised_len=new['minimised_len']))
            else:
                second_chance.append((v['run_seed'], 'replay of %s in a fresh interpreter did not reproduce: %s' % (
                    v['replay'], json.dumps(res)[:600])))
        else:
            verified.append(v)
    kept = []
    for e in errors:
        mm = re.search(r'"run_seed": (\d+), "trace": "violation \S+ did not reproduce in-process on replay"', e)
        if mm:
            second_chance.append((int(mm.group(1)), e))
        else:
            kept.append(e)
    errors = kept
    # Second chance: a violation that hinges on process-global state (e.g. a mutated default argument) polluted by
    # earlier runs of the same worker cannot be minimised there.  Re-execute that one run, alone, in a fresh interpreter:
    # if the property really is broken by this run's own history it fails again and is minimised and replayed cleanly.
    for run_seed, why in second_chance[:4]:
        sub_dir = os.path.join(out_dir, 'second')
        jobs2 = make_jobs(prop, tier, batch_seed, 1, sub_dir, 120, excluded, only_seed=run_seed)
        res2, err2 = run_jobs(jobs2, 1, repo, 400)
        ok = False
        for r in res2:
            v = r.get('violation')
            if v and v['invariant'] not in seen_inv | set(x['invariant'] for x in verified):
                doc, res = fresh_replay(v['replay'], repo)
                if not res.get('harness_error') and res.get('violation') and \
                        res['violation']['invariant'] == doc['expect']['invariant'] and \
                        res['event_digest'] == doc['expect']['event_digest']:
                    verified.append(v)
                    ok = True
                else:
                    new = fresh_minimise(doc, repo) if doc.get('original_ops') else None
                    if new is not None:
                        with open(v['replay'], 'w') as f:
                            json.dump(new, f, indent=1)
                        verified.append(dict(v, invariant=new['invariant'], message=new['expect']['message'],
                                             minimised_len=new['minimised_len']))
                        ok = True
            elif v and any(x['invariant'] == v['invariant'] for x in verified):
                ok = True
        if not ok and only_seed is None:
            v3 = prefix_chance(prop, tier, batch_seed, n_runs, run_seed, out_dir, excluded, repo)
            if v3 is None:
                WALL_FOR[(prop, tier)] = wall_s
                v3 = seed_prefix_chance(prop, tier, batch_seed, n_runs, run_seed, out_dir, excluded, repo)
            if v3 is not None:
                if v3['invariant'] not in set(x['invariant'] for x in verified):
                    verified.append(v3)
                ok = True
        if not ok:
            errors.append(why + ' (and the run does not fail when executed alone in a fresh interpreter, nor after '
                          'the runs that preceded it in its worker)')
    known_lines, kviols = [], []
    try:
        known_lines, kviols = confirm_known(prop, repo)
    except RuntimeError as e:
        errors.append(str(e))
    for line in known_lines:
        print(line)
    for v in verified:
        print('violation: invariant=%s run_seed=%d ops %d -> %d%s: %s' % (
            v['invariant'], v['run_seed'], v['original_len'], v['minimised_len'],
            ' (after %d earlier run(s) in the same process)' % v['prelude_runs'] if v.get('prelude_runs') else '',
            v['message']))
        print('VIOLATION property=%s replay=%s' % (prop, v['replay']))
        rc = 1
    for rp, msg in kviols:
        print('violation: %s' % msg)
        print('VIOLATION property=%s replay=%s' % (prop, rp))
        rc = 1
    wall_used = time.monotonic() - t0
    if m['runs'] > 0 and not no_evidence:
        write_evidence(prop, tier, batch_seed, world_cls, m, wall_used,
                       len(verified) + len(kviols), known_lines, excluded=excluded)
    if errors and rc == 0:
        for e in errors:
            print('HARNESS-ERROR %s' % e)
        rc = 2
    elif errors:
        for e in errors:
            print('harness-note %s' % e)
    if not quiet:
        print('%s: runs=%d steps=%d distinct_seqs=%d states=%d faults=%s probes0=%s wall=%.1fs rc=%d' % (
            prop, m['runs'], m['steps'], len(m['seqs']), len(m['states']),
            dict(m['faults']), sorted(k for k in world_cls.PROBES if not m['probes'].get(k)),
            wall_used, rc))
    return rc


def cmd_replay(prop, path, repo):
    doc, res = fresh_replay(path, repo)
    if prop and doc['property'] != prop:
        print('HARNESS-ERROR replay file is for %s' % doc['property'])
        return 2
    if res.get('harness_error'):
        print('HARNESS-ERROR %s' % res['harness_error'])
        return 2
    v = res.get('violation')
    if v is None:
        print('replay of %s: property held (%d steps)' % (path, res['n_steps']))
        return 0
    print('violation: invariant=%s step=%d: %s' % (v['invariant'], v['step'], v['message']))
    same = (v['invariant'] == doc['expect']['invariant'] and v['step'] == doc['expect']['step']
            and res['event_digest'] == doc['expect']['event_digest'])
    print('same-as-recorded=%s' % same)
    print('VIOLATION property=%s replay=%s' % (doc['property'], path))
    return 1


def cmd_setup():
    ok = True
    if not os.path.exists(PY):
        print('missing %s' % PY)
        ok = False
    p = subprocess.run([PY, '-c', 'import sys; sys.path.insert(0, "/repo"); import pmutt, numpy, scipy, yaml; '
                        'print(pmutt.__file__)'], capture_output=True, text=True)
    print(p.stdout.strip(), p.stderr.strip()[-500:])
    ok = ok and p.returncode == 0 and p.stdout.strip().startswith('/repo/')
    for d in ('/dev/shm', tempfile.gettempdir()):
        try:
            t = tempfile.mkdtemp(prefix='simlab-setup-', dir=d)
            os.rmdir(t)
            print('scratch ok: %s' % d)
            break
        except OSError:
            continue
    else:
        ok = False
    os.makedirs(OUT, exist_ok=True)
    os.makedirs(os.path.join(HERE, 'evidence'), exist_ok=True)
    print('setup %s' % ('ok' if ok else 'FAILED'))
    return 0 if ok else 2


def main():
    ap = argparse.ArgumentParser(prog='check')
    ap.add_argument('prop', nargs='?')
    ap.add_argument('--tier', default=os.environ.get('VERIF_TIER', 'quick'))
    ap.add_argument('--replay')
    ap.add_argument('--setup', action='store_true')
    ap.add_argument('--selftest')
    ap.add_argument('--props')
    ap.add_argument('--runs', type=int)
    ap.add_argument('--wall', type=int)
    ap.add_argument('--repo', default=os.environ.get('SIMLAB_REPO', '/repo'))
    ap.add_argument('--mutant')
    ap.add_argument('--run-seed', type=int, help='execute exactly one generated run (no evidence written)')
    a = ap.parse_args()
    os.makedirs(OUT, exist_ok=True)
    seed = int(os.environ.get('VERIF_SEED', DEFAULT_SEED))
    if a.tier not in GROUPS:
        a.tier = 'quick'
    if a.setup:
        return cmd_setup()
    if a.selftest:
        from . import selftest
        props = a.props.split(',') if a.props else None
        return selftest.main(a.selftest, props, seed, a.mutant)
    if not a.prop:
        ap.error('property id required')
    if a.prop not in worlds.REGISTRY:
        print('HARNESS-ERROR property %s is not claimed (see MANIFEST.not_applicable)' % a.prop)
        return 2
    if a.replay:
        return cmd_replay(a.prop, a.replay, a.repo)
    return cmd_check(a.prop, a.tier, a.repo, seed, a.runs, wall=a.wall, only_seed=a.run_seed)


if __name__ == '__main__':
    sys.exit(main())
