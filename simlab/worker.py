"""Worker process: runs a slice of a batch, or replays one file.

Started as a fresh interpreter by the driver with PYTHONHASHSEED fixed.
  python -m simlab.worker batch  <json-args>
  python -m simlab.worker replay <file>
Prints one JSON document on the last stdout line (prefixed RESULT:).
"""
import faulthandler
import json
import os
import sys
import time

sys.dont_write_bytecode = True


def bind_repo():
    repo = os.environ.get('SIMLAB_REPO', '/repo')
    if sys.path[0:1] != [repo]:
        sys.path.insert(0, repo)
    import pmutt
    got = os.path.realpath(os.path.dirname(os.path.dirname(pmutt.__file__)))
    if got != os.path.realpath(repo):
        raise SystemExit('HARNESS-ERROR pmutt imported from %s, wanted %s' % (got, repo))
    return repo


def _op_label(o):
    lab = o['op']
    f = o.get('fault')
    if f:
        lab += '!' + f['kind']
    pol = (o.get('args') or {}).get('policy') if isinstance(o.get('args'), dict) else None
    if pol:
        lab += '!' + pol['kind']
    return lab


def _seq_digest(ops):
    import hashlib
    return hashlib.sha256('|'.join(_op_label(o) for o in ops).encode()).hexdigest()[:14]


def batch(args):
    from .core import run_generated, run_replay, same_failure
    from .shrink import minimise
    from . import worlds
    prop = args['prop']
    world_cls = worlds.load(prop)
    hashseed = int(os.environ.get('PYTHONHASHSEED', '0') or 0)
    tier = args['tier']
    excluded = args.get('excluded', [])
    t0 = time.monotonic()
    deadline = t0 + args['deadline_s']
    out = {
        'group': args['group'], 'hashseed': hashseed, 'runs': 0, 'steps': 0,
        'counters': {}, 'probes': {}, 'faults': {}, 'near_miss': {},
        'seqs': [], 'states': [], 'trigrams': [], 'samples': [],
        'violation': None, 'harness_error': None, 'digests': {},
        'sim_time_s': 0.0, 'clock_jumps': 0, 'stopped_early': False,
    }
    from collections import Counter
    counters, probes, faults, near = Counter(), Counter(), Counter(), Counter()
    seqs, states, trigrams = set(), set(), set()
    state_changing = set(world_cls.STATE_CHANGING)
    want_digests = args.get('want_digests', False)
    record_all = args.get('record_all', False)      # keep every run's ops: the failing run may need its predecessors
    history = []
    for idx, run_seed in args['runs']:
        if time.monotonic() > deadline:
            out['stopped_early'] = True
            break
        faulthandler.dump_traceback_later(args.get('run_wall_s', 60), exit=True)
        res = run_generated(world_cls, prop, run_seed, hashseed, tier, excluded)
        faulthandler.cancel_dump_traceback_later()
        ctx = res.ctx
        out['runs'] += 1
        out['steps'] += res.n_steps
        counters.update(ctx.counters)
        probes.update(ctx.probes)
        faults.update(ctx.faults)
        near.update(ctx.near_miss)
        if ctx.clock is not None:
            out['sim_time_s'] += ctx.clock.elapsed()
            out['clock_jumps'] += ctx.clock.jumps
        names = [_op_label(o) for o in res.ops]
        n_change = sum(1 for o in res.ops if o['op'] in state_changing)
        if n_change >= 3:
            seqs.add(_seq_digest(res.ops))
        for a, b, c in zip(names, names[1:], names[2:]):
            trigrams.add(a + '>' + b + '>' + c)
        states.update(s[:12] for s in ctx.states)
        if want_digests:
            out['digests'][str(run_seed)] = res.event_digest
        if len(out['samples']) < 2 and n_change >= 3 and res.violation is None:
            out['samples'].append({'run_seed': run_seed, 'hashseed': hashseed,
                                   'swarm': res.swarm, 'ops': res.ops[:25]})
        if res.harness_error:
            out['harness_error'] = {'run_seed': run_seed, 'trace': res.harness_error}
            break
        if (args.get('no_minimise') or os.environ.get('SIMLAB_MODE') == 'nomin ') and res.violation:
            # exact re-execution of a group's runs (nothing recorded, nothing minimised in-process): the replay file is
            # the list of run seeds itself
            v = res.violation
            k = [sd for _, sd in args['runs']].index(run_seed)
            path = os.path.join(args['out_dir'], '%d.json' % run_seed)
            doc = {
                'kind': 'seed-prefix', 'property': prop, 'invariant': v['invariant'], 'run_seed': run_seed,
                'batch_args': args,
                'hashseed': hashseed, 'tier': tier, 'excluded': list(excluded), 'runs': args['runs'][:k + 1],
                'swarm': res.swarm, 'ops': res.ops, 'original_len': len(res.ops), 'minimised_len': len(res.ops),
                'expect': {'invariant': v['invariant'], 'step': v['step'], 'message': v['message'],
                           'event_digest': res.event_digest},
                'pmutt_repo': os.environ.get('SIMLAB_REPO', '/repo'),
            }
            os.makedirs(args['out_dir'], exist_ok=True)
            with open(path, 'w') as f:
                json.dump(doc, f, indent=1)
            out['violation'] = {'run_seed': run_seed, 'replay': path, 'invariant': v['invariant'],
                                'message': v['message'], 'original_len': len(res.ops), 'minimised_len': len(res.ops)}
            break
        if record_all and res.violation:
            v = res.violation
            path = os.path.join(args['out_dir'], '%d.json' % run_seed)
            doc = {
                'property': prop, 'invariant': v['invariant'], 'run_seed': run_seed, 'hashseed': hashseed, 'tier': tier,
                'prelude': history, 'swarm': res.swarm, 'ops': res.ops, 'original_ops': res.ops,
                'original_swarm': res.swarm, 'original_len': len(res.ops), 'minimised_len': len(res.ops),
                'original_prelude_runs': len(history), 'replays_used': 0,
                'expect': {'invariant': v['invariant'], 'step': v['step'], 'message': v['message'],
                           'event_digest': res.event_digest},
                'pmutt_repo': os.environ.get('SIMLAB_REPO', '/repo'),
            }
            os.makedirs(args['out_dir'], exist_ok=True)
            with open(path, 'w') as f:
                json.dump(doc, f, indent=1)
            out['violation'] = {'run_seed': run_seed, 'replay': path, 'invariant': v['invariant'],
                                'message': v['message'], 'original_len': len(res.ops), 'minimised_len': len(res.ops)}
            break
        if record_all:
            history.append({'run_seed': run_seed, 'swarm': res.swarm, 'ops': res.ops})
        if res.violation:
            v = res.violation
            faulthandler.dump_traceback_later(args.get('shrink_wall_s', 120) + 60, exit=True)
            ops, swarm, n_rep, ok = minimise(world_cls, prop, res.swarm, res.ops, hashseed,
                                             v['invariant'], args.get('shrink_wall_s', 60))
            faulthandler.cancel_dump_traceback_later()
            if not ok:
                out['harness_error'] = {
                    'run_seed': run_seed,
                    'trace': 'violation %s did not reproduce in-process on replay'
                             % v['invariant'], 'first': v}
                break
            final = run_replay(world_cls, prop, swarm, ops, hashseed)
            path = os.path.join(args['out_dir'], '%d.json' % run_seed)
            doc = {
                'property': prop, 'invariant': final.violation['invariant'],
                'run_seed': run_seed, 'hashseed': hashseed, 'tier': tier,
                'swarm': swarm, 'ops': final.ops, 'original_ops': res.ops, 'original_swarm': res.swarm,
                'original_len': len(res.ops), 'minimised_len': len(final.ops),
                'replays_used': n_rep,
                'expect': {'invariant': final.violation['invariant'],
                           'step': final.violation['step'],
                           'message': final.violation['message'],
                           'event_digest': final.event_digest},
                'pmutt_repo': os.environ.get('SIMLAB_REPO', '/repo'),
            }
            os.makedirs(args['out_dir'], exist_ok=True)
            with open(path, 'w') as f:
                json.dump(doc, f, indent=1)      # no sort_keys: dictionary order inside ops is part of the input
            out['violation'] = {'run_seed': run_seed, 'replay': path,
                                'invariant': doc['invariant'],
                                'message': doc['expect']['message'],
                                'original_len': doc['original_len'],
                                'minimised_len': doc['minimised_len']}
            break
    out['counters'] = dict(counters)
    out['probes'] = dict(probes)
    out['faults'] = dict(faults)
    out['near_miss'] = dict(near)
    out['seqs'] = sorted(seqs)
    out['states'] = sorted(states)
    out['trigrams'] = sorted(trigrams)
    out['wall_s'] = time.monotonic() - t0
    return out


def replay(path):
    from .core import run_replay
    from . import worlds
    with open(path) as f:
        doc = json.load(f)
    world_cls = worlds.load(doc['property'])
    hashseed = int(os.environ.get('PYTHONHASHSEED', '0') or 0)
    if hashseed != doc['hashseed']:
        raise SystemExit('HARNESS-ERROR replay needs PYTHONHASHSEED=%d' % doc['hashseed'])
    if doc.get('kind') == 'seed-prefix':
        raise SystemExit('HARNESS-ERROR a seed-prefix replay is executed by the driver (./check --replay), as a batch')
    faulthandler.dump_traceback_later(600, exit=True)
    for pre in doc.get('prelude') or []:
        # earlier runs of the same process: what they leave behind in the library (module globals, default
        # arguments, caches) is part of the history that the failing run continues
        run_replay(world_cls, doc['property'], pre['swarm'], pre['ops'], hashseed, run_seed=pre.get('run_seed', 0))
    res = run_replay(world_cls, doc['property'], doc['swarm'], doc['ops'], hashseed,
                     run_seed=doc.get('run_seed', 0))
    faulthandler.cancel_dump_traceback_later()
    return {'violation': res.violation, 'harness_error': res.harness_error,
            'event_digest': res.event_digest, 'n_steps': res.n_steps}


def main():
    faulthandler.enable()
    bind_repo()
    mode = sys.argv[1]
    if mode == 'batch':
        with open(sys.argv[2]) as f:
            args = json.load(f)
        out = batch(args)
    elif mode == 'replay':
        out = replay(sys.argv[2])
    else:
        raise SystemExit('bad mode')
    sys.stdout.write('\nRESULT:' + json.dumps(out) + '\n')
    sys.stdout.flush()


if __name__ == '__main__':
    main()
