"""World C06: Chemkin mechanism files (gas.inp, surf.inp, EAs/EAg, T_flow, tube_mole) written over a
fault-injecting file system and a simulated clock, read back with read_reactions."""
import math
import re

from ..core import World, Violation, Skip
from ..filekit import FileKit, WRITE_FAULTS, READ_FAULTS, gen_fault, gen_alloc, gen_jump, side_stream

H2O_LOW = [4.19864056E+00, -2.03643410E-03, 6.52040211E-06, -5.48797062E-09, 1.77197817E-12, -3.02937267E+04,
           -8.49032208E-01]
H2O_HIGH = [3.03399249E+00, 2.17691804E-03, -1.64072518E-07, -9.70419870E-11, 1.68200992E-14, -3.00042971E+04,
            4.96677010E+00]
ACT_METHODS = ['get_E_act', 'get_H_act', 'get_G_act', 'get_EoRT_act', 'get_HoRT_act', 'get_GoRT_act']
GAS_NAMES = ['H2', 'N2', 'NH3', 'CO', 'CH4', 'O2', 'H2O', 'CO2', 'C2H4', 'NO']
ELS = ['H', 'N', 'C', 'O']
METALS = ['RU', 'PT', 'NI']


def fmt_stoich(n, stoich_format):
    if abs(n - 1) < 1e-9:
        return ''
    if abs(n - round(n)) < 1e-9:
        return str(int(round(n)))
    return format(n, stoich_format)


def equation(rx, species_delimiter, reaction_delimiter, stoich_format):
    side = lambda ms: species_delimiter.join(fmt_stoich(n, stoich_format) + nm for nm, n in ms)
    return side(rx['reactants']) + reaction_delimiter + side(rx['products'])


def num_close(text, want, float_format):
    """Does the printed field equal the value to the printed precision?"""
    try:
        got = float(text)
    except ValueError:
        return False
    if not math.isfinite(want):
        return text.strip().lower() in ('inf', '-inf', 'nan')
    printed = format(want, float_format)
    if printed.strip() == text.strip():
        return True
    # tolerate a tie in the last printed digit
    m = re.search(r'\.(\d+)([eEfgG])', float_format)
    dec = int(m.group(1)) if m else 6
    if m and m.group(2) in 'gG':
        ex = math.floor(math.log10(abs(want))) if want != 0 else 0
        ulp = 10.0 ** (ex - max(dec, 1) + 1)
    elif 'e' in float_format.lower():
        ex = math.floor(math.log10(abs(want))) if want != 0 else 0
        ulp = 10.0 ** (ex - dec)
    else:
        ulp = 10.0 ** (-dec)
    return abs(got - want) <= 0.5000001 * ulp


class WorldC06(World):
    PROP = 'C06'
    RUNS = {'quick': 4000, 'thorough': 60000}
    WALL = {'quick': 50, 'thorough': 560}
    STATE_CHANGING = ('mkmodel', 'write_gas', 'write_surf', 'write_EA', 'write_T_flow', 'write_tube_mole')
    STATE_RULE = 'per path: (absent | undefined | which file kind it holds), number of models, writes so far bucket'
    PROBES = ('gas-reaction-in-mechanism', 'adsorption-reaction', 'surface-reaction-with-ts', 'surface-reaction-without-ts',
              'two-or-three-sites', 'stoich-2-or-3', 'text-path', 'file-path', 'crlf-newline', 'cr-newline', 'overwrite',
              'write-after-failed-write', 'recovery-after-fault', 'write-through-symlink', 'reactions-looked-at-between-writes', 'relative-name-in-case-directory', 'alloc-failure-signalled', 'alloc-failure-over-existing-file', 'read-back-gas', 'read-back-surf', 'read-of-torn-file',
              'read-absent', 'fault-did-not-fire', 'clock-jump-before-write', 'same-model-written-twice',
              'dimensionless-activation', 'gibbs-activation', 'eight-conditions', 'custom-delimiters',
              'mole-fraction-missing-species', 'EA-gas', 'EA-surface', 'reactants-gas-products-surface',
              'equal-but-distinct-site-objects', 'barrier-anchored-in-species', 'same-length-variant-mechanism', 'prefactor-anchored-in-constants', 'EA-pressure-series-at-one-T', 'sticking-coefficient-zero')
    REAL = ('pmutt.io.chemkin writers and read_reactions', 'pmutt.reaction.ChemkinReaction / Reactions', 'pmutt.chemkin.CatSite',
            'pmutt.empirical.nasa.Nasa', 'pmutt.io._get_file_timestamp')
    SIMULATED = ('disk: SimFS (open/write/close errors, ENOSPC after k characters, crash at four points, read errors)',
                 'clock: SimClock bound to pmutt.io.datetime', 'hash seed (ELEMENTS order comes from a set)',
                 'allocator: SimAlloc (MemoryError at a seeded function entry of the writer call)',
                 'file names: symbolic links, bare names from changing working directories; LF, CRLF and CR line ends',
                 '1-3 clients writing the files of one or two mechanisms in any order, repeatedly')
    ASSUMPTIONS = ('every printed number is compared with the value the model gives when called afresh with pristine arguments '
                   'on a twin model rebuilt from the same description',)
    TRIGGERS = {
        'C06-gas-reactants-surface-products': 'a reaction whose reactants are all gaseous while a product is a surface species',
    }
    PROBE_TRIGGER = {'reactants-gas-products-surface': 'C06-gas-reactants-surface-products'}
    MAX_STEPS = 40

    # ------------------------------------------------------------------ gen
    def gen_swarm(self, rng, tier):
        return {'w_variant': rng.choice([0.0, 0.0, 0.05, 0.1]), 'n_clients': rng.randint(1, 3), 'paths': ['c%d.inp' % i for i in range(rng.randint(1, 4))],
                'fault_rate': rng.choice([0.0, 0.0, 0.15, 0.3]),
                'fault_kinds': sorted(rng.sample(WRITE_FAULTS + READ_FAULTS, rng.randint(1, 9))),
                'jump_rate': rng.choice([0.0, 0.2, 0.5]), 'n_sites': rng.choice([1, 1, 2, 3]),
                'n_rxn': rng.choice([1, 3, 6, 12, 40]), 'odd_phase': rng.random() < 0.15,
                'custom_fmt': rng.random() < 0.3, 'enum': tier == 'thorough' and rng.random() < 0.2,
                'w_read': rng.choice([1, 2])}

    def n_steps(self, rng, swarm):
        return rng.randint(4, 16)

    def setup(self, swarm):
        import numpy as np
        import pmutt.io.chemkin as ck
        import pmutt.reaction as rx
        import pmutt.chemkin as pck
        import pmutt.empirical.nasa as nasa
        self.np, self.ck, self.rx, self.pck, self.nasa = np, ck, rx, pck, nasa
        self.kit = FileKit(self)
        self.plan = []         # ops queued by the generator (a scripted little history)
        self.models = {}       # id -> descriptor
        self.live = {}         # id -> built objects that every write re-uses (state may leak between writes)
        self.written = {}      # path -> dict(kind, model, opts) of the last acknowledged write
        self.n_writes = {}

    def teardown(self):
        self.kit.teardown()

    def _gen_model(self, rng):
        sw = self.ctx.swarm
        sites = []
        for i in range(sw['n_sites']):
            m = METALS[i]
            sites.append({'name': '%s0001' % m, 'site_density': round(10 ** rng.uniform(-11, -8), 14),
                          'density': round(rng.uniform(5, 25), 1), 'bulk': '%s(B)' % m, 'vacant': '%s(S)' % m})
        species = []
        n_gas = rng.randint(1, min(6, len(GAS_NAMES)))
        el = lambda: {e: rng.randint(1, 4) for e in rng.sample(ELS, rng.randint(1, 3))}
        for nm in rng.sample(GAS_NAMES, n_gas):
            species.append({'name': nm, 'phase': 'G', 'elements': el(), 'site': None, 'n_sites': None})
        for i, s in enumerate(sites):
            m = METALS[i]
            species.append({'name': s['vacant'], 'phase': 'S', 'elements': {m: 1}, 'site': i, 'n_sites': 1})
            species.append({'name': s['bulk'], 'phase': 'S', 'elements': {m: 1}, 'site': i, 'n_sites': 1})
            for j in range(rng.randint(1, 5)):
                e = el()
                e[m] = 1
                species.append({'name': 'A%d(%s)' % (j, 'S' if i == 0 else 'S%d' % i), 'phase': 'S', 'elements': e, 'site': i,
                                'n_sites': rng.choice([1, 1, 2])})
        for d in species:
            d['scale'] = round(rng.uniform(0.8, 1.2), 4)
            d['shift'] = round(rng.uniform(-6000, 6000), 1)
        ts = []
        rxs = []
        gas = [d['name'] for d in species if d['phase'] == 'G']
        st = lambda: rng.choice([1, 1, 1, 2, 3])
        for r in range(rng.randint(1, sw['n_rxn'])):
            kind = rng.choice(['ads', 'surf', 'surf', 'gas'] +
                              (['odd'] if sw['odd_phase'] and self.ctx.allow('C06-gas-reactants-surface-products') else []))
            i = rng.randrange(len(sites))
            ads = [d['name'] for d in species if d['site'] == i and d['name'] not in (sites[i]['vacant'], sites[i]['bulk'])]
            rxd = {'beta': rng.choice([1.0, 0.0, 0.5]), 'is_adsorption': False, 'sticking_coeff': 0.5, 'ts': None}
            if kind == 'gas' and len(gas) >= 2:
                a = rng.sample(gas, rng.randint(1, min(2, len(gas) - 1)))
                b = rng.sample([g for g in gas if g not in a], 1)
                rxd.update(reactants=[[x, st()] for x in a], products=[[x, st()] for x in b])
                tphase = 'G'
            elif kind == 'ads':
                n = st()
                rxd.update(reactants=[[rng.choice(gas), 1], [sites[i]['vacant'], n]],
                           products=[[rng.choice(ads), rng.choice([1, n])], [sites[i]['bulk'], n]],
                           is_adsorption=True,
                           sticking_coeff=rng.choice([round(rng.uniform(0.01, 1.0), 3)] * 5 + [0.0, 1.0]))
                tphase = None
            elif kind == 'odd':
                rxd.update(reactants=[[rng.choice(gas), 1]], products=[[rng.choice(ads), st()]])
                tphase = None
            else:
                a = rng.sample(ads, rng.randint(1, min(2, len(ads))))
                b = rng.sample(ads, rng.randint(1, min(2, len(ads))))
                n = st()
                rxd.update(reactants=[[x, st()] for x in a] + [[sites[i]['vacant'], n]],
                           products=[[x, st()] for x in b] + [[sites[i]['bulk'], n]])
                tphase = 'S'
            if tphase and rng.random() < 0.6:
                tn = 'TS%d' % len(ts)
                ts.append({'name': tn, 'phase': tphase, 'elements': {'H': 1}, 'site': i if tphase == 'S' else None,
                           'n_sites': 1 if tphase == 'S' else None, 'scale': round(rng.uniform(0.8, 1.2), 4),
                           'shift': round(rng.uniform(0, 12000), 1)})
                rxd['ts'] = tn
            rxs.append(rxd)
        return {'sites': sites, 'species': species, 'ts': ts, 'reactions': rxs,
                'site_objects': rng.choice(['shared', 'shared', 'per-species'])}

    def _gen_opts(self, rng, kind):
        sw = self.ctx.swarm
        o = {'newline': rng.choice(['\n', '\n', '\n', '\r\n', '\r\n', '\r']), 'to_file': rng.random() < 0.75}
        if sw['custom_fmt'] and rng.random() < 0.5:
            o.update({'float_format': rng.choice([' .3E', ' .5E', '.2E', ' .4e', '.0E', ' .3G', ' .6G']), 'stoich_format': rng.choice(['.0f', '.1f']),
                      'column_delimiter': rng.choice(['  ', ' ', '    ']), 'species_delimiter': rng.choice(['+', ' + ']),
                      'reaction_delimiter': rng.choice(['=', '<=>', ' = '])})
        if kind in ('write_gas', 'write_surf'):
            o['T'] = round(rng.uniform(250, 1200), 1)
            o['act_method_name'] = rng.choice(ACT_METHODS)
            o['act_unit'] = rng.choice(['kcal/mol', 'kJ/mol', 'cal/mol', 'J/mol'])
            if kind == 'write_surf':
                o['ads_act_method'] = rng.choice(['get_H_act', 'get_G_act', 'get_HoRT_act'])
                o['sden_operation'] = rng.choice(['min', 'max', 'sum', 'mean'])
                o['use_mw_correction'] = rng.random() < 0.7
        if kind == 'write_EA':
            n = rng.choice([1, 2, 3, 8])
            o['conditions'] = [{'T': round(rng.uniform(250, 1200), 1), 'P': round(10 ** rng.uniform(-2, 1), 3)} for _ in range(n)]
            for j in range(1, n):
                if rng.random() < 0.35:      # a pressure series at one temperature
                    o['conditions'][j]['T'] = o['conditions'][rng.randrange(j)]['T']
            o['write_gas_phase'] = rng.random() < 0.4
            o['act_method_name'] = rng.choice(['get_EoRT_act', 'get_HoRT_act', 'get_GoRT_act'])
            o['ads_act_method'] = rng.choice(['get_HoRT_act', 'get_GoRT_act'])
        if kind == 'write_T_flow':
            n = rng.choice([1, 2, 3, 8])
            for k, (lo, hi) in (('T', (250, 1200)), ('P', (0.01, 50)), ('Q', (0.1, 500)), ('abyv', (1, 2000))):
                o[k] = [round(rng.uniform(lo, hi), 3) for _ in range(n)]
        if kind == 'write_tube_mole':
            n = rng.choice([1, 2, 3, 8])
            o['n_cond'] = n
            o['fracs'] = None       # filled from the model in gen_op
        return o

    def _variant(self, md, rng):
        """The same mechanism for other gases whose names are as long (H2 -> N2, CH4 -> NH3): every file written from it
        has exactly the length of the original's."""
        import json as _json
        md2 = _json.loads(_json.dumps(md))
        have = set(d['name'] for d in md['species'])
        ren = {}
        for d in md['species']:
            if d['phase'] == 'G':
                cand = [g for g in GAS_NAMES if len(g) == len(d['name']) and g not in have and g not in ren.values()]
                if cand and rng.random() < 0.8:
                    ren[d['name']] = rng.choice(cand)
        if not ren:
            return None
        for d in md2['species']:
            d['name'] = ren.get(d['name'], d['name'])
        for r in md2['reactions']:
            for side in ('reactants', 'products'):
                r[side] = [[ren.get(n, n), v] for n, v in r[side]]
        return md2

    def gen_op(self, rng):
        if self.plan:
            op = self.plan.pop(0)
            op.setdefault('gc', True)
            return op
        side = side_stream(rng)
        op = self._gen_op0(rng)
        if op is not None and self.models and side.random() < 0.07:
            # between two writes the caller looks at its reactions: prints them, compares them, serialises them
            return {'c': 0, 'op': 'touch', 'gc': True, 'args': {
                'model': side.choice(sorted(self.models)),
                'calls': [[side.choice(['str', 'to_dict', 'eq', 'to_string', 'to_string']),
                           {'stoich_format': side.choice(['.0f', '.1f', '.2f']), 'species_delimiter': side.choice(['+', ' + ']),
                            'reaction_delimiter': side.choice(['=', '<=>', ' = ']), 'include_TS': side.random() < 0.7}]
                          for _ in range(side.randint(1, 3))]}}
        if op is not None and op['op'].startswith('write_') and op['args'].get('opts', {}).get('to_file') \
                and op.get('fault') is None and side.random() < 0.12:
            op['args']['link'] = True
        elif op is not None and op['op'].startswith('write') and isinstance(op.get('args'), dict) and side.random() < 0.15:
            op['args']['rel'] = side.choice(['caseA', 'caseB', 'caseB/run2'])
        if op is not None and op['op'].startswith('write_') and op['args'].get('opts', {}).get('to_file') and not self.plan \
                and rng.random() < 0.06:
            # scripted: the disk fills up half-way through a write; the caller frees space and writes the same thing again;
            # later the interpreter collects what the failed call left behind
            import copy as _copy
            first = _copy.deepcopy(op)
            first['fault'] = {'kind': 'write_error', 'k': 0.5, 'errno': 'ENOSPC'}
            first['args']['enum'] = False
            first['gc'] = False
            second = _copy.deepcopy(first)
            second['fault'] = None
            o2 = second['args']['opts']                 # (other numbers than the failed attempt's)
            if isinstance(o2.get('T'), (int, float)):
                o2['T'] = round(o2['T'] + 41.0, 1)
            elif isinstance(o2.get('T'), list):
                o2['T'] = [round(t_ + 41.0, 3) for t_ in o2['T']]
            for cnd in o2.get('conditions') or []:
                cnd['T'] = round(cnd['T'] + 41.0, 1)
            for fr in o2.get('fracs') or []:
                for nm_ in fr:
                    fr[nm_] = round(min(1.0, fr[nm_] * 0.5 + 0.1), 3)
            third = _copy.deepcopy(second)
            third['gc'] = True
            self.plan = [second, third]
            return first
        if op is not None:
            # when the interpreter gets round to finalising handles an earlier failed call may have left open
            op['gc'] = rng.random() < 0.5
            failed = sorted(self.kit.failed_last)
            if failed and isinstance(op.get('args'), dict) and 'path' in op['args'] and op.get('fault') is None:
                # right after a failed write: the caller tries the same file again, before anything has been collected
                if rng.random() < 0.6:
                    op['args']['path'] = rng.choice(failed)
                    op['gc'] = False
        return op

    def _gen_op0(self, rng):
        sw = self.ctx.swarm
        c = rng.randrange(sw['n_clients'])
        if self.plan:
            return dict(self.plan.pop(0), c=c)
        if self.models and sw.get('w_variant') and rng.random() < sw['w_variant']:
            # a parameter study: write the mechanism, read it, write its same-length variant to the same name within the
            # same tick of the file system's clock, read again
            m0 = rng.choice(sorted(self.models))
            md2 = self._variant(self.models[m0], rng)
            if md2 is not None and any(self._all_gas(self.models[m0], r) for r in self.models[m0]['reactions']):
                m1 = max(self.models) + 1
                o = self._gen_opts(rng, 'write_gas')
                o['to_file'] = True
                for k_ in ('float_format', 'stoich_format', 'column_delimiter', 'species_delimiter', 'reaction_delimiter'):
                    o.pop(k_, None)
                path = rng.choice(sw['paths'])
                w = lambda m: {'op': 'write_gas', 'fault': None, 'jump': None,
                               'args': {'model': m, 'path': path, 'opts': dict(o), 'enum': False}}
                rd = lambda: {'op': 'read', 'fault': None, 'jump': None, 'args': {'path': path, 'with_species': False}}
                self.plan = [w(m0), rd(), w(m1), rd()]
                return {'c': c, 'op': 'mkmodel', 'args': {'id': m1, 'model': md2, 'variant_of': m0}}
        if not self.models or (len(self.models) < 2 and rng.random() < 0.1):
            return {'c': c, 'op': 'mkmodel', 'args': {'id': len(self.models), 'model': self._gen_model(rng)}}
        mid = rng.choice(sorted(self.models))
        path = rng.choice(sw['paths'])
        jump = gen_jump(rng) if rng.random() < sw['jump_rate'] else None
        kinds = ['write_gas', 'write_surf', 'write_surf', 'write_EA', 'write_T_flow', 'write_tube_mole'] + ['read'] * sw['w_read']
        kind = rng.choice(kinds)
        if kind == 'read':
            rf = [k for k in sw['fault_kinds'] if k in READ_FAULTS]
            fault = gen_fault(rng, rf) if rf and rng.random() < sw['fault_rate'] else None
            return {'c': c, 'op': 'read', 'fault': fault, 'jump': jump,
                    'args': {'path': path, 'with_species': rng.random() < 0.5}}
        o = self._gen_opts(rng, kind)
        if kind == 'write_tube_mole':
            names = [d['name'] for d in self.models[mid]['species'] if not d['name'].endswith('(B)')]
            fr = []
            for _ in range(o['n_cond']):
                pick = rng.sample(names, rng.randint(1, min(5, len(names))))
                fr.append({nm: round(rng.uniform(0, 1), 3) for nm in pick})
            side_ = side_stream(rng)
            if side_.random() < 0.3:
                # a species that is named in every run and absent from the feed (a product, an empty adsorbate): 0 throughout
                z = side_.choice(names)
                for f_ in fr:
                    f_[z] = side_.choice([0, 0.0])
            o['fracs'] = fr
        wf = [k for k in sw['fault_kinds'] if k in WRITE_FAULTS]
        fault = None
        if o['to_file'] and wf and rng.random() < sw['fault_rate']:
            fault = gen_fault(rng, wf)
        if o['to_file'] and fault is None:
            fault = gen_alloc(rng)
        return {'c': c, 'op': kind, 'fault': fault, 'jump': jump,
                'args': {'model': mid, 'path': path, 'opts': o, 'enum': sw['enum'] and o['to_file'] and rng.random() < 0.3}}

    # ------------------------------------------------------------------ building
    def _build(self, md):
        sites = [self.pck.CatSite(name=s['name'], site_density=s['site_density'], density=s['density'], bulk_specie=s['bulk'])
                 for s in md['sites']]
        sp = {}
        for d in md['species'] + md['ts']:
            lo = [v * d['scale'] for v in H2O_LOW]
            hi = [v * d['scale'] for v in H2O_HIGH]
            lo[5] += d['shift']
            hi[5] += d['shift']
            o = self.nasa.Nasa(name=d['name'], phase=d['phase'], elements=dict(d['elements']), T_low=100.0, T_mid=1000.0,
                               T_high=3500.0, a_low=lo, a_high=hi)
            if d['site'] is not None:
                # as in the project's example: the site is assigned after the species is made, before the reactions are
                if md.get('site_objects') == 'per-species':
                    # one equal CatSite object per species row, as a spreadsheet or JSON loader makes them
                    st = md['sites'][d['site']]
                    o.cat_site = self.pck.CatSite(name=st['name'], site_density=st['site_density'], density=st['density'],
                                                  bulk_specie=st['bulk'])
                    self.ctx.probe('equal-but-distinct-site-objects')
                else:
                    o.cat_site = sites[d['site']]
                o.n_sites = d['n_sites']
            sp[d['name']] = o
        rxs = []
        for r in md['reactions']:
            rxs.append(self.rx.ChemkinReaction(
                reactants=[sp[n] for n, _ in r['reactants']], reactants_stoich=[v for _, v in r['reactants']],
                products=[sp[n] for n, _ in r['products']], products_stoich=[v for _, v in r['products']],
                transition_state=[sp[r['ts']]] if r['ts'] else None, transition_state_stoich=[1] if r['ts'] else None,
                beta=r['beta'], is_adsorption=r['is_adsorption'], sticking_coeff=r['sticking_coeff']))
        return {'sites': sites, 'species': sp, 'list': [sp[d['name']] for d in md['species']], 'rxn_list': rxs,
                'reactions': self.rx.Reactions(reactions=rxs)}

    def _all_gas(self, md, r):
        ph = {d['name']: d['phase'] for d in md['species'] + md['ts']}
        names = [n for n, _ in r['reactants'] + r['products']] + ([r['ts']] if r['ts'] else [])
        return all(ph[n] == 'G' for n in names)

    # ------------------------------------------------------------------ expected values (fresh twin, pristine arguments)
    def _expected_rate_line(self, twin, i, r, o, surf):
        rxn = twin['rxn_list'][i]
        T = o['T']
        act_unit = o['act_unit']
        if r['is_adsorption']:
            A = r['sticking_coeff']
            meth = getattr(rxn, o.get('ads_act_method') or 'get_H_act')
        else:
            inc = o['act_method_name'] not in ('get_GoRT_act', 'get_G_act', 'get_delta_GoRT', 'get_delta_G')
            A = rxn.get_A(include_entropy=inc, sden_operation=o.get('sden_operation') if surf else None, T=T)
            self._anchor_A(twin, r, float(A), inc, o.get('sden_operation') if surf else None)
            meth = getattr(rxn, o['act_method_name'])
        from pmutt import _force_pass_arguments
        Ea = _force_pass_arguments(meth, T=T, units=act_unit)
        self._anchor_barrier(twin, r, meth.__name__, float(Ea), {'T': T}, act_unit)
        return float(A), float(r['beta']), float(Ea)

    def _anchor_A(self, twin, r, got, include_entropy, sden_operation):
        """Without an activation entropy (no transition state, or a Gibbs-type barrier that already holds it) the
        pre-exponential factor is kB/h divided by the effective site density to the power (surface reactants - 1), with the
        library's own constants table as the source of kB and h."""
        if r['ts'] and include_entropy:
            return
        from pmutt import constants as c
        md = None
        for m_ in self.models.values():
            if any(r is x for x in m_['reactions']):
                md = m_
        if md is None:
            return
        by = {d['name']: d for d in md['species']}
        dens, n_surf = [], 0
        for n, nu in r['reactants']:
            d = by[n]
            if d['site'] is None:
                continue
            site = md['sites'][d['site']]
            if n == site['bulk']:
                continue
            dens.extend([site['site_density']] * int(nu))
            if d['phase'] == 'S':
                n_surf += nu
        want = c.kb('J/K') / c.h('J s')
        if not all(by[n]['phase'] == 'G' for n, _ in r['reactants']):
            if not dens:
                return
            eff = {'min': min, 'max': max, 'sum': sum, 'mean': lambda v: sum(v) / len(v)}.get(sden_operation or 'sum')
            if eff is None:
                return
            want = want / eff(dens) ** (n_surf - 1)
        self.ctx.probe('prefactor-anchored-in-constants')
        if abs(got - want) > 1e-10 * abs(want):
            raise Violation('number-equals-model', 'reaction %s: get_A gives %r; kB/h / (effective site density)^(n_surf-1) '
                            'from the constants table and the sites = %r' % (equation(r, '+', '=', '.0f'), got, want))

    def _anchor_barrier(self, twin, r, meth_name, got, cond, unit):
        """"The value the model gives" is anchored in the species: for the enthalpy and Gibbs barriers of a Chemkin
        reaction it is max(0, X_ts - X_reactants, X_products - X_reactants), X = sum of nu_i x_i over the species' own
        getters at the requested conditions (the energy barrier E adds a molecularity term and is left to the reaction)."""
        q = {'get_H_act': 'HoRT', 'get_HoRT_act': 'HoRT', 'get_G_act': 'GoRT', 'get_GoRT_act': 'GoRT'}.get(meth_name)
        if q is None:
            return
        sp = twin['species']

        def state(members):
            return sum(nu * float(getattr(sp[n], 'get_' + q)(**cond)) for n, nu in members)
        xr, xp = state(r['reactants']), state(r['products'])
        cands = [0.0, xp - xr]
        if r['ts']:
            cands.append(state([[r['ts'], 1]]) - xr)
        want = max(cands)
        if 'oRT' not in meth_name:
            from pmutt import constants as c
            want = want * c.R('%s/K' % unit) * cond['T']
        self.ctx.probe('barrier-anchored-in-species')
        if abs(got - want) > 1e-9 * max(1.0, abs(want), abs(xr), abs(xp)) * (1.0 if 'oRT' in meth_name else 1e4):
            raise Violation('number-equals-model', 'reaction %s: %s at %r gives %r; from its species, max(0, TS - reactants, '
                            'products - reactants) = %r' % (equation(r, '+', '=', '.0f'), meth_name, cond, got, want))

    # ------------------------------------------------------------------ text oracles
    @staticmethod
    def _body(text):
        lines = text.split('\n')
        return lines[0] if lines else '', [ln for ln in lines[1:] if ln.strip() != '' and not ln.lstrip().startswith('!')]

    def _judge_reactions(self, what, lines, md, twin, o, want_idx, surf):
        sd, rd, sf = o.get('species_delimiter', '+'), o.get('reaction_delimiter', '='), o.get('stoich_format', '.0f')
        ff = o.get('float_format', ' .3E')
        want = {}
        for i in want_idx:
            r = md['reactions'][i]
            want.setdefault(equation(r, sd, rd, sf).replace(' ', ''), []).append(i)
        seen = {}
        k = 0
        while k < len(lines):
            ln = lines[k]
            k += 1
            if ln.strip() == 'STICK':
                raise Violation('layout', '%s: STICK line without a preceding adsorption reaction' % what)
            parts = ln.split()
            if len(parts) < 4:
                raise Violation('layout', '%s: reaction line %r has fewer than four columns' % (what, ln))
            nums = parts[-3:]
            eq = ''.join(parts[:-3])
            if eq not in want:
                raise Violation('each-once-in-its-section', '%s: reaction %r is written here but is not one of the %s reactions '
                                'of the model (%r)' % (what, eq, 'surface' if surf else 'gas', sorted(want)[:6]))
            seen[eq] = seen.get(eq, 0) + 1
            if seen[eq] > len(want[eq]):
                raise Violation('each-once-in-its-section', '%s: reaction %r written %d times' % (what, eq, seen[eq]))
            i = want[eq][seen[eq] - 1]
            r = md['reactions'][i]
            stick = k < len(lines) and lines[k].strip() == 'STICK'
            if stick:
                k += 1
            if stick != bool(r['is_adsorption']):
                raise Violation('layout', '%s: reaction %r %s a STICK line' % (what, eq, 'lacks' if r['is_adsorption'] else 'has'))
            A, beta, Ea = self._expected_rate_line(twin, i, r, o, surf)
            for nm, txt, val in (('pre-exponential factor / sticking coefficient', nums[0], A), ('beta', nums[1], beta),
                                 ('activation energy', nums[2], Ea)):
                if not num_close(txt, val, ff):
                    raise Violation('number-equals-model', '%s: %s of %r printed as %s, the model gives %r (%s, T=%r, %s)' % (
                        what, nm, eq, txt, val, o.get('ads_act_method') if r['is_adsorption'] else o['act_method_name'],
                        o['T'], o['act_unit']))
        missing = [e for e in want if seen.get(e, 0) < len(want[e])]
        if missing:
            raise Violation('each-once-in-its-section', '%s: %d %s reactions of the model are missing, e.g. %r' % (
                what, len(missing), 'surface' if surf else 'gas', missing[:3]))

    def _judge_gas(self, text, md, twin, o, what):
        first, body = self._body(text)
        self.kit.check_timestamp(first, what, '! ')
        try:
            i0 = body.index('ELEMENTS')
            i1 = body.index('END', i0)
            i2 = body.index('SPECIES', i1)
            i3 = body.index('END', i2)
            i4 = next(j for j in range(i3, len(body)) if body[j].startswith('REACTIONS'))
            i5 = len(body) - 1
        except (ValueError, StopIteration):
            raise Violation('layout', '%s: ELEMENTS/SPECIES/REACTIONS sections not found in order' % what)
        if body[i5].strip() != 'END' or i0 != 0:
            raise Violation('layout', '%s: file does not start with ELEMENTS and end with END' % what)
        els = [x.strip() for x in body[i0 + 1:i1]]
        want_el = set(e for d in md['species'] for e in d['elements'])
        if sorted(els) != sorted(want_el):
            raise Violation('each-once-in-its-section', '%s: ELEMENTS lists %r, species contain %r' % (what, els, sorted(want_el)))
        sp = [x.strip() for x in body[i2 + 1:i3]]
        want_sp = [d['name'] for d in md['species'] if d['phase'] == 'G']
        if sorted(sp) != sorted(want_sp):
            raise Violation('each-once-in-its-section', '%s: SPECIES lists %r, gas species are %r' % (what, sp, want_sp))
        gas_idx = [i for i, r in enumerate(md['reactions']) if self._all_gas(md, r)]
        self._judge_reactions(what, body[i4 + 1:i5], md, twin, o, gas_idx, surf=False)

    def _judge_surf(self, text, md, twin, o, what):
        first, body = self._body(text)
        self.kit.check_timestamp(first, what, '! ')
        try:
            iE = body.index('END')
            iR = next(j for j in range(iE, len(body)) if body[j].startswith('REACTIONS'))
        except (ValueError, StopIteration):
            raise Violation('layout', '%s: site block / REACTIONS not found' % what)
        if body[-1].strip() != 'END':
            raise Violation('layout', '%s: last line is %r' % (what, body[-1][:30]))
        surf_idx = [i for i, r in enumerate(md['reactions']) if not self._all_gas(md, r)]
        # species that take part in the reactions handed to the writer (transition states excluded)
        used = set(n for r in md['reactions'] for n, _ in r['reactants'] + r['products'])
        sites_used = {}
        for d in md['species']:
            if d['name'] in used and d['phase'] != 'G' and d['name'] != md['sites'][d['site']]['bulk']:
                sites_used.setdefault(d['site'], []).append(d)
        cur = None
        got_sites, got_bulk = {}, []
        for ln in body[:iE]:
            s = ln.strip()
            if s.startswith('SITE/'):
                m = re.match(r'SITE/([^/]+)/\s*SDEN/([^/]+)/$', s)
                if not m:
                    raise Violation('layout', '%s: site header %r' % (what, s))
                cur = m.group(1)
                if cur in got_sites:
                    raise Violation('each-once-in-its-section', '%s: site %r declared twice' % (what, cur))
                got_sites[cur] = {'sden': m.group(2), 'ads': []}
            elif s.startswith('BULK'):
                m = re.match(r'BULK\s+([^/]+)/([^/]+)/$', s)
                if not m:
                    raise Violation('layout', '%s: bulk line %r' % (what, s))
                got_bulk.append((m.group(1), m.group(2)))
            else:
                m = re.match(r'([^/]+)/(\d+)/$', s)
                if not m or cur is None:
                    raise Violation('layout', '%s: unexpected line %r in the site block' % (what, s))
                got_sites[cur]['ads'].append((m.group(1), int(m.group(2))))
        want_sites = {md['sites'][i]['name']: ds for i, ds in sites_used.items()}
        if set(got_sites) != set(want_sites):
            raise Violation('each-once-in-its-section', '%s: sites %r declared, model uses %r' % (
                what, sorted(got_sites), sorted(want_sites)))
        for i, ds in sites_used.items():
            s = md['sites'][i]
            g = got_sites[s['name']]
            if not num_close(g['sden'], s['site_density'], '.5E'):
                raise Violation('number-equals-model', '%s: site density of %s printed as %s, model %r' % (
                    what, s['name'], g['sden'], s['site_density']))
            if sorted(g['ads']) != sorted((d['name'], int(d['n_sites'])) for d in ds):
                raise Violation('each-once-in-its-section', '%s: site %s lists %r, model has %r' % (
                    what, s['name'], g['ads'], [(d['name'], d['n_sites']) for d in ds]))
        want_bulk = sorted((md['sites'][i]['bulk'], md['sites'][i]['density']) for i in sites_used)
        if sorted(b for b, _ in got_bulk) != [b for b, _ in want_bulk]:
            raise Violation('each-once-in-its-section', '%s: BULK lines %r, model has %r' % (what, got_bulk, want_bulk))
        for (b, txt), (_, dens) in zip(sorted(got_bulk), want_bulk):
            if not num_close(txt, dens, '.1f'):
                raise Violation('number-equals-model', '%s: bulk density of %s printed as %s, model %r' % (what, b, txt, dens))
        hdr = body[iR].split()
        if (hdr[1:2] or ['']) != ['MWON' if o.get('use_mw_correction', True) else 'MWOFF']:
            raise Violation('layout', '%s: REACTIONS header %r' % (what, body[iR]))
        unit = '' if 'oRT' in o['act_method_name'] else o['act_unit'].upper()
        if (hdr[2:] or ['']) != ([unit] if unit else ['']) and not (unit == '' and len(hdr) == 2):
            raise Violation('layout', '%s: REACTIONS header %r, activation unit %r' % (what, body[iR], unit))
        self._judge_reactions(what, body[iR + 1:-1], md, twin, o, surf_idx, surf=True)

    def _judge_EA(self, text, md, twin, o, what):
        first, body = self._body(text)
        self.kit.check_timestamp(first, what, '! ')
        if not body or body[-1].strip() != 'EOF':
            raise Violation('layout', '%s: does not end with EOF' % what)
        m = re.match(r'\s*(\d+)\s+!Number of reactions', body[0])
        if not m:
            raise Violation('layout', '%s: count line %r' % (what, body[0]))
        rows = body[1:-1]
        if int(m.group(1)) != len(rows):
            raise Violation('declared-count', '%s: declares %s reactions, %d lines follow' % (what, m.group(1), len(rows)))
        gasw = o['write_gas_phase']
        idx = [i for i, r in enumerate(md['reactions']) if self._all_gas(md, r) == gasw]
        sd, rd, sf = o.get('species_delimiter', '+'), o.get('reaction_delimiter', '<=>'), o.get('stoich_format', '.0f')
        ff = o.get('float_format', ' .2E')
        want = {}
        for i in idx:
            want.setdefault(equation(md['reactions'][i], sd, rd, sf).replace(' ', ''), []).append(i)
        seen = {}
        n = len(o['conditions'])
        from pmutt import _force_pass_arguments
        for ln in rows:
            parts = ln.split()
            if len(parts) < n + 1:
                raise Violation('layout', '%s: line %r has fewer than %d value columns' % (what, ln, n))
            eq = ''.join(parts[:-n])
            if eq not in want:
                raise Violation('each-once-in-its-section', '%s: reaction %r is not a %s reaction of the model' % (
                    what, eq, 'gas' if gasw else 'surface'))
            seen[eq] = seen.get(eq, 0) + 1
            if seen[eq] > len(want[eq]):
                raise Violation('each-once-in-its-section', '%s: reaction %r written %d times' % (what, eq, seen[eq]))
            i = want[eq][seen[eq] - 1]
            r = md['reactions'][i]
            rxn = twin['rxn_list'][i]
            meth = getattr(rxn, o['ads_act_method'] if r['is_adsorption'] else o['act_method_name'])
            for txt, cond in zip(parts[-n:], o['conditions']):
                val = float(_force_pass_arguments(meth, **dict(cond)))
                self._anchor_barrier(twin, r, meth.__name__, val, dict(cond), None)
                if not num_close(txt, val, ff):
                    raise Violation('number-equals-model', '%s: %r at %r printed as %s, the model gives %r' % (
                        what, eq, cond, txt, val))
        missing = [e for e in want if seen.get(e, 0) < len(want[e])]
        if missing:
            raise Violation('each-once-in-its-section', '%s: reactions missing: %r' % (what, missing[:3]))

    def _judge_T_flow(self, text, o, what):
        first, body = self._body(text)
        self.kit.check_timestamp(first, what, '! ')
        if not body or body[-1].strip() != 'EOF':
            raise Violation('layout', '%s: does not end with EOF' % what)
        rows = body[:-1]
        n = len(o['T'])
        if len(rows) != n:
            raise Violation('declared-count', '%s: %d runs given, %d lines written' % (what, n, len(rows)))
        ff = o.get('float_format_plain', '.3E')
        for i, ln in enumerate(rows):
            parts = ln.split('!')[0].split()
            run = ln.split('!')[1].strip() if '!' in ln else ''
            if len(parts) != 4 or run != str(i + 1):
                raise Violation('layout', '%s: line %r' % (what, ln))
            for txt, k in zip(parts, ('T', 'P', 'Q', 'abyv')):
                if not num_close(txt, o[k][i], ff):
                    raise Violation('number-equals-model', '%s: run %d %s printed as %s, given %r' % (what, i + 1, k, txt, o[k][i]))

    def _judge_tube(self, text, md, o, what):
        first, body = self._body(text)
        self.kit.check_timestamp(first, what, '! ')
        if not body or body[-1].strip() != 'EOF':
            raise Violation('layout', '%s: does not end with EOF' % what)
        if not body[0].startswith('0 '):
            raise Violation('layout', '%s: restart line %r' % (what, body[0]))
        m = re.match(r'(\d+)\s+Number of nonzero species', body[1])
        if not m:
            raise Violation('layout', '%s: count line %r' % (what, body[1]))
        rows = body[2:-1]
        if int(m.group(1)) != len(rows):
            raise Violation('declared-count', '%s: declares %s species, %d lines follow' % (what, m.group(1), len(rows)))
        named = set(k for fr in o['fracs'] for k in fr)
        ph = {}
        for d in md['species']:
            ph[d['name']] = 'GAS' if d['phase'] == 'G' else md['sites'][d['site']]['name']
        want = {"'%s/%s/'" % (nm, ph[nm]): nm for nm in named}
        seen = set()
        n = len(o['fracs'])
        ff = o.get('float_format', ' .3f')
        for ln in rows:
            parts = ln.split()
            key = parts[0]
            if key not in want or key in seen:
                raise Violation('each-once-in-its-section', '%s: species entry %r unexpected or repeated (expected %r)' % (
                    what, key, sorted(want)))
            seen.add(key)
            if len(parts) != n + 1:
                raise Violation('layout', '%s: line %r has %d value columns for %d runs' % (what, ln, len(parts) - 1, n))
            for txt, fr in zip(parts[1:], o['fracs']):
                val = fr.get(want[key], 0.0)
                if want[key] not in fr:
                    self.ctx.probe('mole-fraction-missing-species')
                if not num_close(txt, val, ff):
                    raise Violation('number-equals-model', '%s: mole fraction of %s printed as %s, given %r' % (what, key, txt, val))
        if seen != set(want):
            raise Violation('each-once-in-its-section', '%s: species missing: %r' % (what, sorted(set(want) - seen)))

    # ------------------------------------------------------------------ apply
    def apply(self, op):
        a = op['args']
        name = op['op']
        ctx, kit = self.ctx, self.kit
        if name == 'mkmodel':
            if a['id'] in self.models:
                raise Skip()
            md = a['model']
            if not md.get('reactions') or not md.get('species'):
                raise Skip()
            names = set(d['name'] for d in md['species'] + md['ts'])
            for r in md['reactions']:
                if any(n not in names for n, _ in r['reactants'] + r['products']) or (r['ts'] and r['ts'] not in names):
                    raise Skip()
            if a.get('variant_of') is not None:
                ctx.probe('same-length-variant-mechanism')
            self.models[a['id']] = md
            self.live[a['id']] = self.real(self._build, md, _what='building the mechanism (CatSite, Nasa, ChemkinReaction)')
            if len(md['sites']) > 1:
                ctx.probe('two-or-three-sites')
            for r in md['reactions']:
                if self._all_gas(md, r):
                    ctx.probe('gas-reaction-in-mechanism')
                elif r['is_adsorption']:
                    ctx.probe('adsorption-reaction')
                    if r['sticking_coeff'] == 0:
                        ctx.probe('sticking-coefficient-zero')
                else:
                    ctx.probe('surface-reaction-with-ts' if r['ts'] else 'surface-reaction-without-ts')
                if any(n > 1 for _, n in r['reactants'] + r['products']):
                    ctx.probe('stoich-2-or-3')
                ph = {d['name']: d['phase'] for d in md['species']}
                if all(ph[n] == 'G' for n, _ in r['reactants']) and any(ph[n] != 'G' for n, _ in r['products']):
                    ctx.probe('reactants-gas-products-surface')
            return len(md['reactions'])
        kit.tick(op)
        if name == 'read':
            return self._op_read(a, op.get('fault'))
        if a['model'] not in self.models:
            raise Skip()
        md = self.models[a['model']]
        if name == 'touch':
            rx = self.live[a['model']]['reactions']
            try:
                for what, kw in a['calls']:
                    for i_, r_ in enumerate(rx):
                        if what == 'str':
                            str(r_)
                        elif what == 'to_dict':
                            r_.to_dict()
                        elif what == 'eq':
                            r_ == rx[(i_ + 1) % len(rx)]
                        else:
                            r_.to_string(**kw)
            except Exception:
                raise Skip()           # whether these calls work is not this property's business
            ctx.probe('reactions-looked-at-between-writes')
            return 'touched'
        live = self.live[a['model']]
        o = a['opts']
        what = '%s(model %d)' % (name, a['model'])
        twin = self._build(md)
        fmt = {k: o[k] for k in ('float_format', 'stoich_format', 'column_delimiter', 'species_delimiter', 'reaction_delimiter')
               if k in o}
        if fmt:
            ctx.probe('custom-delimiters')
        if name == 'write_gas':
            # the combination must be one the model itself can evaluate
            gas_idx = [i for i, r in enumerate(md['reactions']) if self._all_gas(md, r)]
            try:
                for i in gas_idx:
                    self._expected_rate_line(twin, i, md['reactions'][i], o, False)
            except Violation:
                raise
            except Exception:
                raise Skip()
            call = lambda fn: self.ck.write_gas(nasa_species=live['list'], filename=fn, T=o['T'], reactions=live['reactions'],
                                                act_method_name=o['act_method_name'], act_unit=o['act_unit'],
                                                newline=o['newline'], **fmt)
            judge = lambda text, nl: self._judge_gas(text, md, twin, o, what)
        elif name == 'write_surf':
            surf_idx = [i for i, r in enumerate(md['reactions']) if not self._all_gas(md, r)]
            try:
                for i in surf_idx:
                    self._expected_rate_line(twin, i, md['reactions'][i], o, True)
            except Violation:
                raise
            except Exception:
                raise Skip()
            call = lambda fn: self.ck.write_surf(reactions=live['reactions'], sden_operation=o['sden_operation'], filename=fn,
                                                 T=o['T'], act_method_name=o['act_method_name'],
                                                 ads_act_method=o['ads_act_method'], act_unit=o['act_unit'],
                                                 newline=o['newline'], use_mw_correction=o['use_mw_correction'], **fmt)
            judge = lambda text, nl: self._judge_surf(text, md, twin, o, what)
        elif name == 'write_EA':
            gasw = o['write_gas_phase']
            ctx.probe('EA-gas' if gasw else 'EA-surface')
            if len(set(c['T'] for c in o['conditions'])) < len(o['conditions']):
                ctx.probe('EA-pressure-series-at-one-T')
            if len(o['conditions']) == 8:
                ctx.probe('eight-conditions')
            try:
                from pmutt import _force_pass_arguments
                for i, r in enumerate(md['reactions']):
                    if self._all_gas(md, r) == gasw:
                        m_ = getattr(twin['rxn_list'][i], o['ads_act_method'] if r['is_adsorption'] else o['act_method_name'])
                        _force_pass_arguments(m_, **dict(o['conditions'][0]))
            except Violation:
                raise
            except Exception:
                raise Skip()
            call = lambda fn: self.ck.write_EA(reactions=live['reactions'], conditions=[dict(c) for c in o['conditions']],
                                               write_gas_phase=gasw, filename=fn, act_method_name=o['act_method_name'],
                                               ads_act_method=o['ads_act_method'], newline=o['newline'], **fmt)
            judge = lambda text, nl: self._judge_EA(text, md, twin, o, what)
        elif name == 'write_T_flow':
            kw = {k: fmt[k] for k in ('column_delimiter',) if k in fmt}
            call = lambda fn: self.ck.write_T_flow(T=list(o['T']), P=list(o['P']), Q=list(o['Q']), abyv=list(o['abyv']),
                                                   filename=fn, newline=o['newline'], **kw)
            judge = lambda text, nl: self._judge_T_flow(text, o, what)
        elif name == 'write_tube_mole':
            if not o.get('fracs'):
                raise Skip()
            kw = {k: fmt[k] for k in ('column_delimiter',) if k in fmt}
            call = lambda fn: self.ck.write_tube_mole(mole_frac_conditions=[dict(f) for f in o['fracs']],
                                                      nasa_species=live['list'], filename=fn, newline=o['newline'], **kw)
            judge = lambda text, nl: self._judge_tube(text, md, o, what)
        else:
            raise Skip()
        if name in ('write_gas', 'write_surf'):
            if 'oRT' in o['act_method_name']:
                ctx.probe('dimensionless-activation')
            if 'G' in o['act_method_name']:
                ctx.probe('gibbs-activation')
        key = (a['model'], name)
        self.n_writes[key] = self.n_writes.get(key, 0) + 1
        if self.n_writes[key] > 1:
            ctx.probe('same-model-written-twice')
        if o['newline'] == '\r\n' and o['to_file']:
            ctx.probe('crlf-newline')
        if o['newline'] == '\r' and o['to_file']:
            ctx.probe('cr-newline')
        if not o['to_file']:
            ctx.probe('text-path')
            kit.write_text(call, judge, what)
            return 'text'
        ctx.probe('file-path')
        token = {'kind': name, 'model': a['model'], 'opts': o}
        if a.get('enum'):
            return kit.enumerate_faults('_enum.inp', call, judge, o['newline'], what, token)
        out = kit.write(a['path'], call, judge, o['newline'], what, token, op.get('fault'), link=bool(a.get('link')), rel=a.get('rel'))
        return out

    def _op_read(self, a, fault):
        ctx, kit = self.ctx, self.kit
        path = a['path']
        state = kit.ref.get(path)
        tok = state[1] if state and state[0] == 'ok' else None
        readable = tok is not None and tok['kind'] in ('write_gas', 'write_surf') and \
            tok['opts'].get('species_delimiter', '+').strip() == '+' and \
            tok['opts'].get('reaction_delimiter', '=').strip() in ('=', '<=>') and \
            tok['opts'].get('stoich_format', '.0f') == '.0f'
        species = None
        if tok is not None and a.get('with_species'):
            species = self.live[tok['model']]['list']
        if tok is not None and not readable and fault is None:
            raise Skip()           # read_reactions is only claimed to read gas.inp / surf.inp with the standard delimiters
        res = kit.read(path, lambda fn: self.ck.read_reactions(fn, species=species), fault, 'read_reactions')
        if res[0] in ('absent', 'torn', 'fault-signalled'):
            return res[0]
        if not readable:
            return 'not a gas.inp/surf.inp with standard delimiters: only the fault clause was judged'
        md = self.models[tok['model']]
        surf = tok['kind'] == 'write_surf'
        ctx.probe('read-back-surf' if surf else 'read-back-gas')
        if res[0] == 'exc':
            e = res[1]
            raise Violation('read-back', 'read_reactions on the %s that pMuTT wrote raised %s: %s' % (
                'surf.inp' if surf else 'gas.inp', type(e).__name__, str(e)[:160]))
        val = res[1]
        idx = [i for i, r in enumerate(md['reactions']) if self._all_gas(md, r) != surf]
        if species is not None:
            Reactions, Reactants, React_obj, React_stoic, Products, Prod_obj, Prod_stoic = val
        else:
            Reactions, Reactants, React_stoic, Products, Prod_stoic = val
        if len(Reactants) != len(idx):
            raise Violation('read-back', 'read_reactions found %d reactions in a file with %d' % (len(Reactants), len(idx)))
        for j, i in enumerate(idx):
            r = md['reactions'][i]
            for side, names, st in (('reactants', Reactants[j], React_stoic[j]), ('products', Products[j], Prod_stoic[j])):
                want = [(n, int(v)) for n, v in r[side]]
                got = list(zip(names, st))
                if got != want:
                    raise Violation('read-back', 'reaction %r read back with %s %r, the model has %r' % (
                        equation(r, '+', '=', '.0f'), side, got, want))
        return 'read %d' % len(idx)

    def abstract_state(self):
        st = []
        for p in sorted(self.ctx.swarm['paths']):
            s = self.kit.ref.get(p)
            st.append('absent' if s is None else ('undefined' if s[0] != 'ok' else s[1]['kind']))
        return [st, len(self.models), min(sum(self.n_writes.values()), 6)]

    def simplify(self, op):
        a = op['args']
        if op['op'] == 'mkmodel':
            md = a['model']
            if len(md['reactions']) > 1:
                for i in range(len(md['reactions'])):
                    yield {**op, 'args': {**a, 'model': {**md, 'reactions': md['reactions'][:i] + md['reactions'][i + 1:]}}}
        elif op['op'].startswith('write_'):
            o = a['opts']
            for k in ('float_format', 'stoich_format', 'column_delimiter', 'species_delimiter', 'reaction_delimiter'):
                if k in o:
                    yield {**op, 'args': {**a, 'opts': {x: v for x, v in o.items() if x != k}}}
            if o.get('newline') != '\n':
                yield {**op, 'args': {**a, 'opts': {**o, 'newline': '\n'}}}
            if a.get('enum'):
                yield {**op, 'args': {**a, 'enum': False}}
            if o.get('conditions') and len(o['conditions']) > 1:
                yield {**op, 'args': {**a, 'opts': {**o, 'conditions': o['conditions'][:1]}}}
