"""World C16: one Equilibrium object reused over many (T, P); solver outcome policies;
network read from a thermdat file on the simulated disk."""
import math
import warnings

from ..core import World, Violation, Skip, SimCrash
from ..seams import SimFS, SimClock, SimSolver, SimAlloc
from ..filekit import side_stream
from ..refmodels import equil

ELEMENTS = ['C', 'H', 'O', 'N']
NOISE = ('Values in x were outside bounds', 'invalid value encountered', 'divide by zero encountered',
         'overflow encountered', 'underflow encountered',
         'Requested temperature')      # a species evaluated outside its fitted range says so: not a statement about convergence

# calibrated on the unchanged tree (see DESIGN 3.16): worst observed x >= 10 margin
# observed maxima over 6916 judged solves on the repaired tree: balance 2e-13, dG 9.3e-11, KKT 9.5e-5, amounts 9.5e-5
TOL_BAL = 1e-8          # element balance, relative to the largest element total
TOL_DG = 1e-7           # G(n) - G(n*) per mole of mixture, relative to max(1, span)
TOL_KKT = 1e-3          # |mu_i - sum lam a_i| for non-trace species
TOL_AMOUNT = 1e-3       # relative agreement of non-trace amounts with the reference optimum
TRACE = 1e-3            # "present in non-trace amounts": equilibrium mole fraction above 1e-3
DEEP_TRACE = 1e-6       # known finding C16-deep-trace: see TRIGGERS (stalls seen up to 6.5e-10; none in 15.7k solves above 1e-6)


def g_of(d, T):
    """Reference G/RT of a generated species descriptor (NASA-7 with Cp/R = cp + a1 T)."""
    a1 = d.get('a1', 0.0)
    return d['cp'] * (1.0 - math.log(T)) + d['h'] / T - d['s'] - 0.5 * a1 * T


class WorldC16(World):
    PROP = 'C16'
    RUNS = {'quick': 2500, 'thorough': 60000}
    WALL = {'quick': 50, 'thorough': 560}
    STATE_CHANGING = ('build', 'solve', 'permute')
    STATE_RULE = 'per Equilibrium object: (number of species, number of elements, solves so far bucket, last solve failed?)'
    PROBES = ('reused-object-solve', 'solve-after-failed-solve', 'permuted-twin-compared', 'iter-cap-fired',
              'solver-raise-fired', 'early-stop-oracle-sensitive', 'natural-nonconvergence', 'span>=30', 'rank-deficient-network',
              'trace-species-present', 'loaded-from-thermdat', 'load-read-fault', 'high-pressure', 'low-pressure',
              'twelve-species', 'four-elements', 'optimality-judged', 'deep-trace-not-judged', 'solver-exit-mode-fired',
              'thermdat-rewritten-in-place', 'corrupt-file-refused', 'solve-with-nan-thermo', 'above-a-species-fitted-range', 'warnings-as-errors', 'alloc-failure-in-solve')
    REAL = ('pmutt.equilibrium.Equilibrium (constructor, get_net_comp, from_thermdat)', 'scipy.optimize.minimize(SLSQP)',
            'pmutt.io.thermdat reader/writer', 'pmutt.empirical.nasa.Nasa')
    SIMULATED = ('solver outcome policy at the pmutt.equilibrium._equilibrium.minimize seam (pass, iteration cap, early stop, raise, give up with SLSQP exit mode 3-9 part-way)',
                 'allocator: SimAlloc (MemoryError at a seeded function entry inside get_net_comp, callbacks included)',
                 'disk under from_thermdat (SimFS read faults)', 'clients reusing one Equilibrium object over many (T, P)')
    TRIGGERS = {
        'C16-deep-trace': 'the true equilibrium composition contains a species below 1e-6 mole fraction '
                          '(SLSQP can then stall with that species pinned at its lower bound and still report success)',
    }
    ASSUMPTIONS = ('the reference optimum comes from an independent element-potential Newton solver whose own KKT residual is '
                   'checked (<1e-8) before it is used; when it does not converge only conservation is judged',
                   'tolerances are calibrated with >= 10x margin on the unchanged tree')
    MAX_STEPS = 30

    # ------------------------------------------------------------------ gen
    def gen_swarm(self, rng, tier):
        return {
            'n_clients': rng.randint(1, 2),
            'n_species': rng.choice([2, 3, 4, 6, 8, 10, 12]),
            'n_elements': rng.randint(1, 4),
            'span': rng.choice([2.0, 2.0, 5.0, 10.0, 30.0, 60.0]),
            'small_coeff': rng.random() < 0.5,
            'via': rng.choice(['thermdat', 'thermdat', 'list', 'dict']),
            'policy_rate': rng.choice([0.0, 0.0, 0.25, 0.5]),
            'feed_scale': rng.choice([1.0, 1.0, 1.0, 1e-3, 1e-6, 1e3]),
            'policies': sorted(rng.sample(['iter_cap', 'raise', 'early_stop', 'fail_status'], rng.randint(1, 4))),
            'load_fault_rate': rng.choice([0.0, 0.3]),
            'enum_policies': tier == 'thorough' and rng.random() < 0.3,
        }

    def n_steps(self, rng, swarm):
        return rng.randint(3, 10)

    def setup(self, swarm):
        import numpy as np
        import pmutt.equilibrium as eqm
        import pmutt.equilibrium._equilibrium as eqi
        import pmutt.io.thermdat as th
        import pmutt.empirical.nasa as nasa
        self.np, self.eqm, self.eqi, self.th, self.nasa = np, eqm, eqi, th, nasa
        self.fs = SimFS(self.ctx)
        self.clock = SimClock(self.ctx)
        self.solver = SimSolver(self.ctx)
        self.eq = {}       # id -> real Equilibrium
        self.meta = {}     # id -> dict(species descs, feed, order, solves, failed_last, results {(T,P): moles by name})
        self.net = None

    def teardown(self):
        try:
            self.solver.uninstall()
            self.clock.uninstall()
        finally:
            self.fs.cleanup()

    def _gen_network(self, rng):
        sw = self.ctx.swarm
        els = ELEMENTS[:sw['n_elements']]
        species, seen = [], set()
        tries = 0
        while len(species) < sw['n_species'] and tries < 200:
            tries += 1
            comp = {}
            for e in els:
                if rng.random() < 0.6:
                    comp[e] = rng.choice([1, 1, 1, 2, 2, 3] if sw.get('small_coeff') else [1, 1, 2, 2, 3, 4, 6, 8])
            if not comp:
                comp[rng.choice(els)] = rng.choice([1, 2])
            key = tuple(sorted(comp.items()))
            if key in seen and rng.random() < 0.8:
                continue
            seen.add(key)
            name = ''.join('%s%d' % (e, n) for e, n in sorted(comp.items())) + ('_%d' % len(species))
            cp = round(rng.uniform(2.5, 15.0), 3)
            s = round(rng.uniform(15.0, 45.0), 3)
            g1000 = rng.uniform(-sw['span'] / 2, sw['span'] / 2)
            h = round((g1000 - cp * (1.0 - math.log(1000.0)) + s) * 1000.0, 2)
            species.append({'name': name[:15], 'comp': comp, 'cp': cp, 'h': h, 's': s})
            if rng.random() < 0.3:
                species[-1]['a1'] = round(rng.uniform(-5e-4, 2e-3), 7)      # a heat capacity that changes with temperature
            if rng.random() < 0.15:
                species[-1]['T_high'] = 1500.0      # fitted up to 1500 K only: above it the object extrapolates (and says so)
        # make sure every element occurs
        present = set(e for d in species for e in d['comp'])
        for e in els:
            if e not in present:
                species[0]['comp'][e] = 1
        feed = {}
        covered = set()
        order = list(range(len(species)))
        rng.shuffle(order)
        for i in order:
            d = species[i]
            if not set(d['comp']) <= covered or rng.random() < 0.2:
                feed[d['name']] = round(rng.choice([1.0, rng.uniform(0.01, 10.0)]), 4)
                covered |= set(d['comp'])
            if covered >= present | set(els) and len(feed) >= 1 and rng.random() < 0.7:
                break
        fs = sw.get('feed_scale', 1.0)
        if fs != 1.0:
            # "any non-negative amounts": micromoles to kilomoles, and not only round numbers
            feed = {k: v * fs * (1.2345678912345 if rng.random() < 0.5 else 1.0) for k, v in feed.items()}
        return species, feed

    def _span(self, species, T):
        g = [g_of(d, T) for d in species]
        return max(g) - min(g)

    def _pick_TP(self, rng, species):
        for _ in range(20):
            T = round(rng.choice([rng.uniform(300, 2500), rng.choice([300.0, 500.0, 1000.0, 2500.0])]), 1)
            if self._span(species, T) <= 60.0:
                break
        else:
            T = 1000.0
        P = rng.choice([1.0, round(10 ** rng.uniform(-2, 2), 4), 0.01, 100.0])
        return T, P

    def gen_op(self, rng):
        sw = self.ctx.swarm
        c = rng.randrange(sw['n_clients'])
        if not self.eq:
            species, feed = self._gen_network(rng)
            fault = None
            if sw['via'] == 'thermdat' and rng.random() < sw['load_fault_rate']:
                fault = {'kind': rng.choice(['read_open_error', 'read_error']), 'k': rng.randint(0, 10), 'errno': 'EIO'}
            order = list(range(len(species)))
            rng.shuffle(order)
            return {'c': c, 'op': 'build', 'fault': fault,
                    'args': {'id': 0, 'species': species, 'feed': feed, 'order': order, 'via': sw['via'],
                             'rewrite': (rng.choice([True, 'longer']) if sw['via'] == 'thermdat' and rng.random() < 0.5 else False),
                             'corrupt': ({'kind': rng.choice(['nan', 'byte', 'cut']), 'sp': rng.randrange(len(species)),
                                          'col': rng.randrange(8)}
                                         if sw['via'] == 'thermdat' and fault is None and rng.random() < 0.15 else None)}}
        ids = sorted(self.eq)
        k = rng.choice(ids)
        m = self.meta[k]
        r = rng.random()
        if r < 0.15 and len(self.eq) < 3:
            order = list(m['order'])
            rng.shuffle(order)
            return {'c': c, 'op': 'permute', 'args': {'src': k, 'id': max(ids) + 1, 'order': order,
                                                       'via': rng.choice(['list', 'dict'])}}
        if m['results'] and r < 0.45:
            T, P = rng.choice(sorted(m['results']))        # revisit a condition on a reused object
        else:
            T, P = self._pick_TP(rng, m['species'])
        pol = None
        if rng.random() < sw['policy_rate']:
            kind = rng.choice(sw['policies'])
            pol = {'kind': kind}
            if kind == 'iter_cap':
                pol['n'] = rng.choice([1, 2, 3, 5, 8])
            if rng.random() < 0.3:
                pol['strict'] = True
            if kind == 'fail_status':
                pol['status'] = rng.choice([8, 8, 9, 4, 5, 6, 7, 3])
                pol['how'] = rng.choice(['cap', 'null'])
                pol['n'] = rng.choice([2, 3, 5, 8, 15])
                pol['frac'] = rng.choice([0.5, 0.1, 0.9])
        if pol is None:
            side = side_stream(rng)
            if side.random() < 0.07:
                pol = {'kind': 'alloc', 'at': side.choice([1, 2, 3, 5, 8, 13, 21, 34, 55, 89, 144, 233, 377])}
        return {'c': c, 'op': 'solve', 'args': {'eq': k, 'T': T, 'P': P, 'policy': pol,
                                               'enum': sw['enum_policies'] and rng.random() < 0.3}}

    # ------------------------------------------------------------------ helpers
    def _nasa(self, d):
        a = [d['cp'], d.get('a1', 0.0), 0.0, 0.0, 0.0, d['h'], d['s']]
        return self.nasa.Nasa(name=d['name'], elements=dict(d['comp']), phase='G', T_low=200.0, T_mid=1000.0,
                              T_high=float(d.get('T_high', 3000.0)), a_low=list(a), a_high=list(a))

    def _construct(self, a, species, feed, order, fault):
        ordered = [species[i] for i in order]
        network = {}
        for d in ordered:
            network[d['name']] = feed.get(d['name'], 0.0)
        objs = [self._nasa(d) for d in species]
        fs = self.fs
        if a['via'] == 'thermdat':
            self.ctx.probe('loaded-from-thermdat')
            if a.get('rewrite'):
                # a refit loop: the file of the previous iteration (same species, other enthalpies; same length, same
                # second) was loaded from this path a moment ago
                self.ctx.probe('thermdat-rewritten-in-place')
                old = [self._nasa(dict(d, h=d['h'] - 700.0 * (i + 1))) for i, d in enumerate(species)]
                if a.get('rewrite') == 'longer':
                    # ... and it was a longer file: two more species, the common ones listed last and in reverse
                    extra = [self._nasa({'name': 'ZZ%d' % j_, 'comp': dict(species[0]['comp']), 'cp': 4.0, 'h': -1000.0, 's': 20.0})
                             for j_ in range(2)]
                    old = extra + old[::-1]
                self.th.write_thermdat(old, filename=fs.path('net%d.dat' % a['id']))
                self.eqm.Equilibrium.from_thermdat(fs.path('net%d.dat' % a['id']), network)
            self.th.write_thermdat(objs, filename=fs.path('net%d.dat' % a['id']))
            if a.get('corrupt'):
                self._corrupt(fs.path('net%d.dat' % a['id']), a['corrupt'])
            fs.install()
            fs.arm(fault)
            try:
                return self.eqm.Equilibrium.from_thermdat(fs.path('net%d.dat' % a['id']), network)
            finally:
                fs.uninstall()
                self._fault_used = fs.last_fault()
                fs.disarm()
        self._fault_used = None
        if a['via'] == 'dict':
            model = {}
            for o in objs:
                model[o.name] = o
        else:
            model = objs
        return self.eqm.Equilibrium(model=model, network=network)

    def _corrupt(self, path, c):
        """Stored bytes changed between the write and the load: a coefficient field that now reads NaN, or a byte in the
        date field that is not valid UTF-8 (a file touched by a tool under another code page)."""
        with open(path, 'rb') as f:
            lines = f.read().split(b'\n')
        first = [i for i, ln in enumerate(lines) if len(ln) >= 80 and ln[79:80] == b'1']
        if not first:
            return
        i = first[c['sp'] % len(first)]
        if c['kind'] == 'cut':
            # the file ends in the middle of its last record (a copy in progress, a full disk on the other side)
            last = max(i_ for i_, ln in enumerate(lines) if len(ln) >= 80 and ln[79:80] == b'4')
            keep = 46 + c.get('col', 0) % 14          # somewhere inside the last coefficient field (columns 46-60)
            lines = lines[:last] + [lines[last][:keep]]
            self.ctx.faults['stored_file_cut_short'] += 1
            with open(path, 'wb') as f:
                f.write(b'\n'.join(lines))
            return
        if c['kind'] == 'nan':
            lines[i + 1] = b'            NaN' + lines[i + 1][15:]          # a_high[0] of that species
            self.ctx.faults['stored_field_nan'] += 1
        else:
            pos = 16 + c.get('col', 0) % 8                                    # inside the date field (columns 17-24)
            lines[i] = lines[i][:pos] + b'\xe9' + lines[i][pos + 1:]
            self.ctx.faults['stored_byte_not_utf8'] += 1
        with open(path, 'wb') as f:
            f.write(b'\n'.join(lines))

    def _matrix(self, m):
        np = self.np
        els = sorted(set(e for d in m['species'] for e in d['comp']))
        ordered = [m['species'][i] for i in m['order']]
        A = np.array([[d['comp'].get(e, 0) for e in els] for d in ordered], dtype=float)
        feed = np.array([m['feed'].get(d['name'], 0.0) for d in ordered])
        return ordered, els, A, feed.dot(A)

    # ------------------------------------------------------------------ apply
    def apply(self, op):
        a = op['args']
        name = op['op']
        ctx = self.ctx
        np = self.np
        if name == 'build':
            if a['id'] in self.eq or len(a['species']) < 2:
                raise Skip()
            names = [d['name'] for d in a['species']]
            if len(set(names)) != len(names) or sorted(a['order']) != list(range(len(names))):
                raise Skip()
            present = set(e for d in a['species'] for e in d['comp'])
            infeed = set(e for d in a['species'] if a['feed'].get(d['name'], 0) > 0 for e in d['comp'])
            if infeed != present:
                raise Skip()
            fault = op.get('fault')
            corrupt = a.get('corrupt') if a['via'] == 'thermdat' else None
            try:
                eq = self.real(self._construct, a, a['species'], a['feed'], a['order'], fault,
                               _allowed=(OSError,) + ((ValueError, KeyError) if corrupt else ()),
                               _what='Equilibrium construction')
            except (ValueError, KeyError) as e:
                if isinstance(e, OSError):
                    raise
                ctx.probe('corrupt-file-refused')
                return 'corrupt file refused (%s)' % type(e).__name__
            except OSError as e:
                used = self._fault_used
                if corrupt and not (used and used.get('fired')):
                    ctx.probe('corrupt-file-refused')
                    return 'corrupt file refused (%s)' % type(e).__name__
                if used and used.get('fired'):
                    ctx.probe('load-read-fault')
                    return 'load fault propagated'
                raise Violation('op-must-succeed', 'Equilibrium.from_thermdat raised %r with no fault' % (e,))
            used = self._fault_used
            if used and used.get('fired'):
                raise Violation('fault-must-be-signalled', 'from_thermdat returned an object although %s fired' % used['kind'])
            if corrupt and corrupt['kind'] in ('cut', 'byte'):
                # the load went through although stored bytes had changed: then what was loaded must be what was written
                for d in a['species']:
                    obj = eq.model.get(d['name']) if isinstance(eq.model, dict) else None
                    want = [d['cp'], d.get('a1', 0.0), 0.0, 0.0, 0.0, d['h'], d['s']]
                    got_lo = list(getattr(obj, 'a_low', [])) if obj is not None else []
                    got_hi = list(getattr(obj, 'a_high', [])) if obj is not None else []
                    bad = obj is None or dict(obj.elements) != dict(d['comp']) or len(got_lo) != 7 or len(got_hi) != 7 or any(
                        abs(float(g_) - w_) > 1e-8 * max(1.0, abs(w_)) for g_, w_ in zip(got_lo + got_hi, want + want))
                    if bad:
                        raise Violation('fault-must-be-signalled', 'the stored file had been damaged (%s) and from_thermdat loaded it '
                                        'without a word: species %r came out as %r / %r / %r, written %r' % (
                                            corrupt['kind'], d['name'], getattr(obj, 'elements', None), got_lo, got_hi, want))
                ctx.probe('damaged-file-loaded-intact')
            self.eq[a['id']] = eq
            self.meta[a['id']] = {'species': a['species'], 'feed': a['feed'], 'order': list(a['order']), 'solves': 0,
                                  'failed_last': False, 'results': {}, 'via': a['via'],
                                  'nan_above_1000K': bool(corrupt and corrupt['kind'] == 'nan')}
            m = self.meta[a['id']]
            ordered, els, A, b = self._matrix(m)
            if np.linalg.matrix_rank(A) < min(A.shape):
                ctx.probe('rank-deficient-network')
            if len(ordered) == 12:
                ctx.probe('twelve-species')
            if len(els) == 4:
                ctx.probe('four-elements')
            return len(ordered)
        if name == 'permute':
            if a['src'] not in self.eq or a['id'] in self.eq:
                raise Skip()
            src = self.meta[a['src']]
            if sorted(a['order']) != list(range(len(src['species']))):
                raise Skip()
            b = {'id': a['id'], 'via': a['via']}
            eq = self.real(self._construct, b, src['species'], src['feed'], a['order'], None,
                           _what='Equilibrium construction (permuted)')
            self.eq[a['id']] = eq
            self.meta[a['id']] = {'species': src['species'], 'feed': src['feed'], 'order': list(a['order']), 'solves': 0,
                                  'failed_last': False, 'results': {}, 'via': a['via'], 'twin_of': a['src']}
            return a['id']
        if name == 'solve':
            if a['eq'] not in self.eq:
                raise Skip()
            m = self.meta[a['eq']]
            if self._span(m['species'], a['T']) > 60.0 + 1e-9 or not (300 <= a['T'] <= 2500) or not (0.01 <= a['P'] <= 100):
                raise Skip()
            out = self._solve(a['eq'], a['T'], a['P'], a.get('policy'))
            if a.get('enum'):
                for pol in ({'kind': 'iter_cap', 'n': 1}, {'kind': 'iter_cap', 'n': 3}, {'kind': 'iter_cap', 'n': 10},
                            {'kind': 'raise'}, {'kind': 'early_stop'}, {'kind': 'fail_status', 'status': 8, 'how': 'cap', 'n': 4},
                            {'kind': 'fail_status', 'status': 4, 'how': 'null', 'frac': 0.5},
                            {'kind': 'fail_status', 'status': 8, 'how': 'null', 'frac': 0.5}, None):
                    self._solve(a['eq'], a['T'], a['P'], pol)
            return out
        raise Skip()

    def _run(self, eq, T, P, policy):
        """One real get_net_comp call under a solver policy; returns (status, value, warnings, solver results)."""
        self.solver.install()
        self.solver.policy = dict(policy) if policy and policy.get('kind') != 'alloc' else None
        self.solver.results = []
        self._alloc_fired = None
        reg = getattr(self.eqi, '__warningregistry__', None)
        if reg:
            reg.clear()
        try:
            with warnings.catch_warnings(record=True) as wl:
                if policy and policy.get('strict'):
                    warnings.simplefilter('error')      # the caller runs with -W error: a warning is an exception
                # no filter of our own: a signal is what reaches a caller running under the interpreter's default
                # filters (workers run with -W default); the once-per-location registry was cleared above
                try:
                    if policy and policy.get('kind') == 'alloc':
                        # an allocation fails at a seeded function entry inside the call (objective and constraint
                        # callbacks included); the object is used again afterwards
                        alloc = SimAlloc(self.ctx)
                        _, ast, out = alloc.run(lambda: eq.get_net_comp(T=T, P=P), int(policy['at']))
                        self._alloc_fired = alloc.fired_in
                        if ast == 'memerror':
                            raise out
                        val = out
                    else:
                        val = eq.get_net_comp(T=T, P=P)
                    st = 'ok'
                except SimCrash:
                    raise
                except Exception as e:
                    val = e
                    st = 'raised'
        finally:
            self.solver.uninstall()
            self.solver.policy = None
        ws = [(w.category.__name__, str(w.message)) for w in wl]
        return st, val, ws, list(self.solver.results)

    def _solve(self, k, T, P, policy):
        ctx, np = self.ctx, self.np
        eq, m = self.eq[k], self.meta[k]
        ordered, els, A, b = self._matrix(m)
        if m['solves'] > 0:
            ctx.probe('reused-object-solve')
        if m['failed_last']:
            ctx.probe('solve-after-failed-solve')
        if P >= 50:
            ctx.probe('high-pressure')
        if P <= 0.02:
            ctx.probe('low-pressure')
        if self._span(m['species'], T) >= 30:
            ctx.probe('span>=30')
        if any(T > d.get('T_high', 3000.0) for d in m['species']):
            ctx.probe('above-a-species-fitted-range')
        kind = policy['kind'] if policy else None
        st, val, ws, results = self._run(eq, T, P, policy)
        m['solves'] += 1
        if m.get('nan_above_1000K') and T >= 1000.0:
            # one species has no Gibbs energy at this temperature (its stored coefficient reads NaN): there is no
            # equilibrium to return, so anything but a signal is a silent wrong answer
            ctx.probe('solve-with-nan-thermo')
            if st == 'ok' and not [w for w in ws if not any(nz in w[1] for nz in NOISE)] and T > 1000.0:
                raise Violation('failure-signalled', 'a species\' Gibbs energy is NaN at T=%r (corrupted coefficient field), yet '
                                'get_net_comp returned %r with no warning and no exception' % (T, list(val.moles)[:6]))
            m['failed_last'] = True
            return 'nan thermo signalled'
        told_failure = any(r == 'raised' or not bool(getattr(r, 'success', False)) for r in results)
        if policy and policy.get('strict'):
            ctx.probe('warnings-as-errors')
        if kind == 'raise':
            ctx.probe('solver-raise-fired')
        if kind == 'iter_cap' and told_failure:
            ctx.probe('iter-cap-fired')
        if kind == 'fail_status' and told_failure:
            ctx.probe('solver-exit-mode-fired')
        if kind is None and told_failure:
            ctx.probe('natural-nonconvergence')
        signals = [w for w in ws if not any(nz in w[1] for nz in NOISE)]
        if kind == 'alloc':
            if self._alloc_fired is None:
                ctx.probe('fault-did-not-fire')
            else:
                ctx.probe('alloc-failure-in-solve')
                if st == 'raised':
                    m['failed_last'] = True
                    return 'allocation failure raised (%s)' % type(val).__name__
        if st == 'raised':
            if isinstance(val, Warning):
                m['failed_last'] = True
                return 'a warning, raised as an error at the caller\'s request'
            if not told_failure and not isinstance(val, (ValueError, RuntimeError, ArithmeticError)):
                raise Violation('op-must-succeed', 'get_net_comp raised %s: %s although every solver call reported '
                                'success' % (type(val).__name__, str(val)[:200]))
            m['failed_last'] = True
            return 'failure raised'
        if signals:
            m['failed_last'] = True
            if not told_failure:
                ctx.probe('warned-although-solver-succeeded')
            return 'failure warned'
        # ---- silent return: the composition is offered as the equilibrium and is judged as such
        if kind == 'early_stop':
            # the solver itself claimed success far from the optimum; the library cannot know.  Used only to
            # show that the optimality oracle is sensitive.
            try:
                self._judge(k, val, ordered, els, A, b, T, P, m, record=False)
            except Violation:
                ctx.probe('early-stop-oracle-sensitive')
            return 'early stop (not judged)'
        try:
            out = self._judge(k, val, ordered, els, A, b, T, P, m, record=True)
        except Violation as v:
            if kind == 'alloc' and self._alloc_fired is not None:
                raise Violation('failure-signalled', 'an allocation failed in %s during get_net_comp at T=%r P=%r; the call returned '
                                'a composition with no warning and no exception, and it is not the equilibrium (%s: %s)' % (
                                    self._alloc_fired, T, P, v.invariant, v.message[:160]))
            if told_failure:
                fails = [getattr(r, 'message', r) for r in results if r == 'raised' or not getattr(r, 'success', False)]
                raise Violation('failure-signalled',
                                'the solver did not converge (%s) at T=%r P=%r; get_net_comp returned a composition with '
                                'no warning and no exception, and it is not the equilibrium (%s: %s)' % (
                                    fails[0], T, P, v.invariant, v.message[:160]))
            raise
        m['failed_last'] = False
        return out

    def _judge(self, k, res, ordered, els, A, b, T, P, m, record):
        ctx, np = self.ctx, self.np
        names = [d['name'] for d in ordered]
        if list(res.species) != names:
            raise Violation('result-shape', 'species returned %r, network order %r' % (list(res.species), names))
        n = np.asarray(res.moles, dtype=float)
        x = np.asarray(res.mole_frac, dtype=float)
        if n.shape != (len(names),) or x.shape != (len(names),):
            raise Violation('result-shape', 'moles shape %r for %d species' % (n.shape, len(names)))
        if res.T != T or res.P != P:
            raise Violation('result-shape', 'result echoes T=%r P=%r for a solve at T=%r P=%r' % (res.T, res.P, T, P))
        if not np.all(np.isfinite(n)) or np.any(n < 0):
            raise Violation('non-negative', 'amounts %r' % (n.tolist(),))
        if abs(x.sum() - 1.0) > 1e-9 or np.max(np.abs(x - n / n.sum())) > 1e-12:
            raise Violation('mole-fractions', 'mole fractions sum to %r' % (x.sum(),))
        bal = np.max(np.abs(n.dot(A) - b)) / np.max(b)
        mx = getattr(ctx, 'maxima', None) if record else None
        if mx is not None:
            mx['bal'] = max(mx.get('bal', 0), float(bal))
        if bal > TOL_BAL:
            raise Violation('atoms-conserved', 'element totals %r, feed %r (T=%r P=%r)' % (n.dot(A).tolist(), b.tolist(), T, P))
        if bal > TOL_BAL / 10:
            ctx.near_miss['atoms-conserved'] += 1
        g = np.array([float(self.eq[k].model[nm].get_GoRT(T=T)) for nm in names])
        c = g + math.log(P * 1.01325)
        ref = equil.solve(A, b, c)
        span = max(1.0, float(g.max() - g.min()))
        deep = ref['converged'] and float((ref['n'] / ref['n'].sum()).min()) < DEEP_TRACE
        if not ref['converged']:
            ctx.probe('reference-not-converged')
        elif deep and not ctx.allow('C16-deep-trace'):
            ctx.probe('deep-trace-not-judged')
        else:
            ctx.probe('optimality-judged')
            N = float(ref['n'].sum())
            dG = (equil.gibbs(n, c) - ref['G']) / N
            if mx is not None:
                mx['dG'] = max(mx.get('dG', 0), dG / span)
                mj = ref['n'] / N > TRACE
                mu_ = c + np.log(np.maximum(n, 1e-300) / n.sum())
                mx['kkt'] = max(mx.get('kkt', 0), float(np.max(np.abs(mu_[mj] - A[mj].dot(ref['lam'])))))
                mx['rel'] = max(mx.get('rel', 0), float(np.max(np.abs(n[mj] - ref['n'][mj]) / ref['n'][mj])))
                dmu = np.abs(mu_ - A.dot(ref['lam']))
                xr = ref['n'] / N
                tag = 'D' if np.linalg.matrix_rank(A) < A.shape[1] else 'F'
                mx[tag + 'wkkt'] = max(mx.get(tag + 'wkkt', 0), float(np.max(xr * dmu)))
                for th in (1e-2, 1e-3, 1e-4, 1e-6):
                    sel = xr > th
                    if sel.any():
                        mx[tag + 'kkt@%g' % th] = max(mx.get(tag + 'kkt@%g' % th, 0), float(np.max(dmu[sel])))
                        mx[tag + 'rel@%g' % th] = max(mx.get(tag + 'rel@%g' % th, 0), float(np.max(np.abs(n[sel] - ref['n'][sel]) / ref['n'][sel])))
                mx[tag + 'dG'] = max(mx.get(tag + 'dG', 0), dG / span)
            if dG > TOL_DG * span:
                raise Violation('gibbs-minimum', 'G(returned) - G(optimum) = %.3e per mole (span %.1f) at T=%r P=%r; '
                                'returned %r, optimum %r' % (dG, span, T, P, n.tolist(), ref['n'].tolist()))
            if dG > TOL_DG * span / 10:
                ctx.near_miss['gibbs-minimum'] += 1
            major = ref['n'] / N > TRACE
            if np.any(~major):
                ctx.probe('trace-species-present')
            mu = c + np.log(np.maximum(n, 1e-300) / n.sum())
            kkt = float(np.max(np.abs(mu[major] - A[major].dot(ref['lam']))))
            if kkt > TOL_KKT:
                raise Violation('reaction-equilibrium', 'non-trace species are off equilibrium by %.3e (mu - sum lam a) at '
                                'T=%r P=%r' % (kkt, T, P))
            if kkt > TOL_KKT / 10:
                ctx.near_miss['reaction-equilibrium'] += 1
            rel = float(np.max(np.abs(n[major] - ref['n'][major]) / ref['n'][major]))
            if rel > TOL_AMOUNT:
                raise Violation('gibbs-minimum', 'non-trace amounts differ from the optimum by %.3e relative at T=%r P=%r' % (
                    rel, T, P))
            if rel > TOL_AMOUNT / 10:
                ctx.near_miss['amounts'] += 1
        byname = dict(zip(names, n.tolist()))
        if record and deep and not ctx.allow('C16-deep-trace'):
            record = False          # known finding: the returned composition may be a stalled iterate; not compared either
        if record and not ref['converged']:
            record = False
        if record:
            key = (T, P)
            # reuse: the same object at the same condition gives what it gave before (and what a twin gives)
            for kk in sorted(self.meta):
                mm = self.meta[kk]
                same_family = kk == k or mm.get('twin_of') == k or m.get('twin_of') == kk or \
                    (mm.get('twin_of') is not None and mm.get('twin_of') == m.get('twin_of'))
                if not same_family or key not in mm['results']:
                    continue
                other = mm['results'][key]
                tot = sum(byname.values())
                for nm in names:
                    if byname[nm] / tot > TRACE or other[nm] / tot > TRACE:
                        if abs(byname[nm] - other[nm]) > TOL_AMOUNT * max(byname[nm], other[nm]):
                            inv = 'reuse-equals-fresh' if kk == k else 'order-independent'
                            raise Violation(inv, '%s at T=%r P=%r: %r now, %r %s' % (
                                nm, T, P, byname[nm], other[nm],
                                'earlier on the same object' if kk == k else 'with another species order'))
                if kk != k:
                    ctx.probe('permuted-twin-compared')
            m['results'][key] = byname
        return round(float(bal), 15)

    def abstract_state(self):
        st = []
        for k in sorted(self.meta):
            m = self.meta[k]
            els = set(e for d in m['species'] for e in d['comp'])
            st.append((len(m['species']), len(els), min(m['solves'], 4), m['failed_last']))
        return st

    def simplify(self, op):
        a = op['args']
        if op['op'] == 'build':
            sp = a['species']
            if len(sp) > 2:
                for i in range(len(sp)):
                    if a['feed'].get(sp[i]['name'], 0) > 0:
                        continue
                    new = sp[:i] + sp[i + 1:]
                    yield {**op, 'args': {**a, 'species': new, 'order': list(range(len(new)))}}
            if a['via'] != 'list':
                yield {**op, 'args': {**a, 'via': 'list'}}
            if a['order'] != list(range(len(sp))):
                yield {**op, 'args': {**a, 'order': list(range(len(sp)))}}
        elif op['op'] == 'solve':
            if a.get('enum'):
                yield {**op, 'args': {**a, 'enum': False}}
            if a['P'] != 1.0:
                yield {**op, 'args': {**a, 'P': 1.0}}
            if a['T'] != 1000.0:
                yield {**op, 'args': {**a, 'T': 1000.0}}
