"""World C17: PiecewiseCovEffect under insert / pop / evaluate / reload histories."""
import json
import math

from ..core import World, Violation, Skip



def _F(pairs, x):
    """Integral from 0 to x of the listed slopes (last segment extends to +inf)."""
    tot = 0.0
    n = len(pairs)
    for k in range(n):
        lo = pairs[k][0]
        hi = pairs[k + 1][0] if k + 1 < n else math.inf
        a = max(0.0, lo)
        b = min(x, hi)
        if b > a:
            tot += pairs[k][1] * (b - a)
    return tot


def _ms(pairs):
    return sorted((float(a), float(b)) for a, b in pairs)


class WorldC17(World):
    PROP = 'C17'
    RUNS = {'quick': 24000, 'thorough': 400000}
    WALL = {'quick': 45, 'thorough': 540}
    STATE_CHANGING = ('new', 'insert', 'pop', 'reload', 'checkpoint', 'restore')
    STATE_RULE = 'per effect: (number of breakpoints, number of tied breakpoints, shares lists)'
    PROBES = ('insert-above-last', 'insert-equal-existing', 'insert-equal-last', 'insert-between',
              'pop-last', 'pop-middle', 'pop0-refused', 'shared-lists-edit',
              'eval-on-breakpoint', 'eval-beyond-last', 'reload-after-edit', 'single-breakpoint-effect',
              'reload-via-hook', 'two-edits-between-evaluations', 'restore-after-edits', 'integer-slopes', 'snapshot-copy-evaluated', 'pop-with-numpy-index',
              'exported-then-used', 'insert-a-hair-from-a-breakpoint')
    REAL = ('pmutt.mixture.cov.PiecewiseCovEffect (all methods)', 'pmutt.io.json encoder/object hook',
            'json module')
    SIMULATED = ('1-3 clients issuing calls over a shared pool of effects (seeded scheduler)',
                 'caller-owned breakpoint/slope lists shared between effects')
    TRIGGERS = {}
    MAX_STEPS = 60

    # ------------------------------------------------------------------ gen
    def gen_swarm(self, rng, tier):
        return {
            'n_clients': rng.randint(1, 3),
            'n_effects': rng.randint(1, 3),
            'share': rng.choice(['none', 'none', 'both', 'intervals', 'slopes']),
            'w_insert': rng.choice([1, 2, 4]),
            'w_pop': rng.choice([0, 1, 2]),
            'w_eval': rng.choice([1, 2]),
            'w_reload': rng.choice([0, 1]),
            'negatives': False,   # breakpoints below 0 are outside the quantifier ([0, 1]); never generated
            'grid': rng.choice([0, 0, 10, 4]),    # 0: continuous values, n: multiples of 1/n (ties)
            'slope_scale': rng.choice([1.0, 10.0, 100.0]),
            # how often the energies of all effects are evaluated between edits (the structural invariants, which read
            # the lists only, still run after every step): an evaluation is itself an event of the history
            'eval_every': rng.choice([1, 1, 2, 3, 5]),
            'int_slopes': rng.random() < 0.25,     # slopes typed as whole numbers (Python ints)
            'w_ckpt': rng.choice([0, 0, 1, 2]),    # dictionaries kept by the caller and restored later
        }

    def n_steps(self, rng, swarm):
        return swarm['n_effects'] + rng.randint(3, 22)

    def setup(self, swarm):
        import pmutt.mixture.cov as cov
        import pmutt.io.json as pj
        self.cov = cov
        self.pj = pj
        self.R = cov.c.R('kcal/mol/K')
        self.lists = {}    # id -> (intervals list object, slopes list object) handed to the constructor
        self.eff = {}      # id -> real object
        self.ref = {}      # id -> reference multiset (sorted list of pairs)
        self.group = {}    # id -> sharing group id
        self.edited = set()
        self.next_id = 0
        self.ckpt = {}     # id -> (dictionary the caller kept, reference pairs then, probe points, values then, step)

    def _val(self, rng, lo, hi):
        g = self.ctx.swarm['grid']
        if g:
            return rng.randint(int(math.ceil(lo * g)), int(math.floor(hi * g))) / g
        return round(rng.uniform(lo, hi), 6)

    def _slope(self, rng):
        sc = self.ctx.swarm['slope_scale']
        if self.ctx.swarm.get('int_slopes'):
            return rng.randint(-int(3 * sc), int(3 * sc))
        return rng.choice([0.0, round(rng.uniform(-sc, sc), 4), float(rng.randint(-5, 5))])

    def gen_op(self, rng):
        sw = self.ctx.swarm
        c = rng.randrange(sw['n_clients'])
        if len(self.eff) < sw['n_effects'] and (not self.eff or rng.random() < 0.7):
            n = rng.choice([1, 1, 2, 2, 3, 4, 5, 6])
            bps = sorted(self._val(rng, 0.0, 1.0) for _ in range(n - 1))
            bps = [0.0] + [b for b in bps]
            bps = sorted(set(bps))     # initial lists strictly ascending; ties only arise through insert
            slopes = [self._slope(rng) for _ in bps]
            share_with = None
            if self.eff and sw['share'] != 'none' and rng.random() < 0.8:
                share_with = rng.choice(sorted(self.eff))
            op = {'c': c, 'op': 'new', 'args': {'id': self.next_id, 'intervals': bps, 'slopes': slopes,
                                                'share_with': share_with, 'share': sw['share'],
                                                'named': rng.random() < 0.5}}
            return op
        ids = sorted(self.eff)
        k = rng.choice(ids)
        pairs = list(zip(self.eff[k].intervals, self.eff[k].slopes))
        n = len(pairs)
        kinds = (['insert'] * sw['w_insert'] + ['pop'] * sw['w_pop'] + ['eval'] * sw['w_eval'] +
                 ['reload'] * sw['w_reload'] + ['ckpt'] * sw.get('w_ckpt', 0))
        kind = rng.choice(kinds)
        if kind == 'ckpt' and rng.random() < 0.3:
            return {'c': c, 'op': 'export', 'args': {'id': k, 'how': rng.choice(['yaml', 'cti'])}}
        if kind == 'ckpt' and rng.random() < 0.4:
            return {'c': c, 'op': 'snapshot', 'args': {'id': k, 'how': rng.choice(['deepcopy', 'pickle', 'copy'])}}
        if kind == 'ckpt':
            if k in self.ckpt and rng.random() < 0.6:
                return {'c': c, 'op': 'restore', 'args': {'id': k}}
            return {'c': c, 'op': 'checkpoint', 'args': {'id': k}}
        if kind == 'insert' and n >= 12:
            kind = 'pop'
        if kind == 'pop' and n <= 1 and rng.random() < 0.7:
            kind = 'insert'
        if kind == 'insert':
            bps = [p[0] for p in pairs]
            where = rng.choice(['between', 'between', 'equal', 'above', 'above', 'equal-last', 'any', 'near'] +
                               (['negative'] if sw['negatives'] else []))
            if where == 'between' and n >= 2:
                j = rng.randrange(n - 1)
                lo, hi = bps[j], bps[j + 1]
                x = round(lo + (hi - lo) * rng.uniform(0.1, 0.9), 6)
            elif where == 'near':
                # a hair below or above an existing breakpoint (not equal to it)
                b0 = rng.choice(bps[1:] or bps)
                x = b0 + rng.choice([-1, 1]) * rng.choice([1e-6, 3e-6, 1e-7, 1e-9]) * max(b0, 0.1)
                x = min(max(x, 1e-9), 1.0)
            elif where == 'equal':
                x = rng.choice(bps)
            elif where == 'equal-last':
                x = bps[-1]
            elif where == 'above':
                x = round(min(1.0, bps[-1] + rng.uniform(0.01, 0.4)), 6)
                if x <= bps[-1]:
                    x = round(bps[-1] + 0.05, 6)
            elif where == 'negative':
                x = -round(rng.uniform(0.01, 0.3), 4)
            else:
                x = self._val(rng, 0.0, 1.0)
            return {'c': c, 'op': 'insert', 'args': {'id': k, 'x': float(x), 's': self._slope(rng)}}
        if kind == 'pop':
            if n <= 1 or rng.random() < 0.15:
                i = 0
            else:
                i = rng.choice([n - 1, rng.randrange(1, n)])
            return {'c': c, 'op': 'pop', 'args': {'id': k, 'i': i, 'np_index': rng.random() < 0.25}}
        if kind == 'reload':
            return {'c': c, 'op': 'reload', 'args': {'id': k, 'via': rng.choice(['from_dict', 'hook', 'hook']),
                                                     'cycles': rng.choice([1, 1, 2])}}
        T = rng.choice([298.15, round(rng.uniform(50, 3000), 2)])
        T2 = round(rng.uniform(50, 3000), 2)
        return {'c': c, 'op': 'eval', 'args': {'id': k, 'T': T, 'T2': T2,
                                               'extra': [round(rng.uniform(0, 1.5), 5) for _ in range(2)]}}

    # ------------------------------------------------------------------ apply
    def _get(self, k):
        if k not in self.eff:
            raise Skip()
        return self.eff[k]

    def apply(self, op):
        a = op['args']
        name = op['op']
        ctx = self.ctx
        if name == 'new':
            if a['id'] in self.eff:
                raise Skip()
            if len(a['intervals']) != len(a['slopes']) or not a['intervals'] or a['intervals'][0] != 0.0 \
                    or any(x > y for x, y in zip(a['intervals'], a['intervals'][1:])):
                raise Skip()
            iv, sl = list(a['intervals']), list(a['slopes'])
            grp = ('g', a['id'])
            sw = a.get('share_with')
            if sw is not None and sw in self.eff and a.get('share') in ('both', 'intervals', 'slopes'):
                other = self.eff[sw]
                # the caller hands the constructor the list objects it gave `other`
                src_iv, src_sl = self.lists[sw]
                if len(src_iv) == len(src_sl) and other.intervals == src_iv and other.slopes == src_sl:
                    if a['share'] in ('both', 'intervals'):
                        iv = src_iv
                    if a['share'] in ('both', 'slopes'):
                        sl = src_sl
                    if len(iv) != len(sl):
                        iv, sl = list(a['intervals']), list(a['slopes'])
                    else:
                        grp = self.group[sw]
            if len(iv) == 1:
                ctx.probe('single-breakpoint-effect')
            obj = self.real(self.cov.PiecewiseCovEffect, 'A*', 'B*', iv, sl,
                            name=('int%d' % a['id']) if a.get('named') else None, _what='constructor')
            self.eff[a['id']] = obj
            self.lists[a['id']] = (iv, sl)
            self.group[a['id']] = grp
            self.ref[a['id']] = _ms(zip(iv, sl))
            self.next_id = max(self.next_id, a['id'] + 1)
            out = len(iv)
        elif name == 'insert':
            obj = self._get(a['id'])
            before = list(zip(obj.intervals, obj.slopes))
            x, s = float(a['x']), a['s']          # the slope keeps the type the caller typed (int or float)
            if isinstance(s, int) and not isinstance(s, bool) and all(isinstance(q, int) for q in obj.slopes):
                ctx.probe('integer-slopes')
            bps = [p[0] for p in before]
            if x > bps[-1]:
                ctx.probe('insert-above-last')
            elif x == bps[-1]:
                ctx.probe('insert-equal-last')
                ctx.probe('insert-equal-existing')
            elif x in bps:
                ctx.probe('insert-equal-existing')
            elif x < 0:
                ctx.probe('insert-negative')
            else:
                ctx.probe('insert-between')
                if any(abs(x - b_) < 1e-5 * max(b_, 0.1) for b_ in bps):
                    ctx.probe('insert-a-hair-from-a-breakpoint')
            try:
                self.real(obj.insert, x, s, _allowed=(ValueError,) if x < 0 else (), _what='insert')
            except ValueError:
                self._check_unchanged(a['id'], before, 'refused-insert-unchanged')
                out = 'refused'
            else:
                self.ref[a['id']] = _ms(self.ref[a['id']] + [(x, s)])
                self.edited.add(a['id'])
                if a['id'] in getattr(self, '_ckpt_edits', {}):
                    self._ckpt_edits[a['id']] += 1
                self._follow_sharers(a['id'])
                out = len(obj.intervals)
        elif name == 'pop':
            obj = self._get(a['id'])
            before = list(zip(obj.intervals, obj.slopes))
            i = int(a['i'])
            if i < 0 or i >= len(before):
                raise Skip()
            if i == 0:
                try:
                    obj.pop(0)
                except ValueError:
                    ctx.probe('pop0-refused')
                    self._check_unchanged(a['id'], before, 'pop0-refused')
                    out = 'refused'
                except Exception as e:
                    raise Violation('pop0-refused', 'pop(0) raised %s instead of ValueError' % type(e).__name__)
                else:
                    raise Violation('pop0-refused', 'pop(0) did not raise; breakpoints now %r' % (obj.intervals,))
            else:
                ctx.probe('pop-last' if i == len(before) - 1 else 'pop-middle')
                if a.get('np_index'):
                    import numpy as _np
                    ctx.probe('pop-with-numpy-index')
                    self.real(obj.pop, _np.int64(i), _what='pop(np.int64)')     # an index that came out of np.searchsorted
                else:
                    self.real(obj.pop, i, _what='pop')
                ref = list(self.ref[a['id']])
                victim = (float(before[i][0]), float(before[i][1]))
                if victim in ref:
                    ref.remove(victim)
                self.ref[a['id']] = ref
                self.edited.add(a['id'])
                self._follow_sharers(a['id'])
                out = len(obj.intervals)
        elif name == 'reload':
            obj = self._get(a['id'])
            want = list(zip(obj.intervals, obj.slopes))
            probes = self._probe_points(obj, [0.33, 1.2])
            vals = [obj.get_UoRT(x=x, T=400.0) for x in probes]
            new = obj
            for _ in range(int(a.get('cycles', 1))):
                if a['via'] == 'hook':
                    ctx.probe('reload-via-hook')
                    text = self.real(json.dumps, new, cls=self.pj.pmuttEncoder, _what='json.dumps')
                    new = self.real(json.loads, text, object_hook=self.pj.json_to_pmutt, _what='json.loads')
                else:
                    d = self.real(new.to_dict, _what='to_dict')
                    d = json.loads(json.dumps(d))
                    new = self.real(self.cov.PiecewiseCovEffect.from_dict, d, _what='from_dict')
            if not isinstance(new, self.cov.PiecewiseCovEffect):
                raise Violation('reload-unchanged', 'reload gave %s' % type(new).__name__)
            got = list(zip(new.intervals, new.slopes))
            if _ms(got) != _ms(want):
                raise Violation('reload-unchanged', 'pairs %r became %r' % (want, got))
            vals2 = [new.get_UoRT(x=x, T=400.0) for x in probes]
            for x, v1, v2 in zip(probes, vals, vals2):
                if not _close(v1, v2, 1e-12, 1e-12):
                    raise Violation('reload-unchanged', 'U(x=%r) %r became %r' % (x, v1, v2))
            if a['id'] in self.edited:
                ctx.probe('reload-after-edit')
            self.eff[a['id']] = new
            self.lists[a['id']] = (new.intervals, new.slopes)
            self.group[a['id']] = ('r', a['id'], ctx.step)
            out = len(got)
        elif name == 'export':
            obj = self._get(a['id'])
            before = (list(obj.intervals), list(obj.slopes))
            from pmutt.omkm.units import Units
            u = Units(quantity='mol', energy='kcal', act_energy='kcal/mol')
            if a['how'] == 'yaml':
                self.real(obj.to_omkm_yaml, units=u, _what='to_omkm_yaml')
            else:
                self.real(obj.to_cti, units=u, _what='to_cti')
            ctx.probe('exported-then-used')
            if (list(obj.intervals), list(obj.slopes)) != before:
                raise Violation('pairs-preserved', 'effect %d: writing it out (%s) changed its breakpoints / slopes from %r to %r' % (
                    a['id'], a['how'], before, (list(obj.intervals), list(obj.slopes))))
            out = 'exported'
        elif name == 'snapshot':
            obj = self._get(a['id'])
            import copy as _copy
            import pickle as _pickle
            # a copy that never went through the constructor; it is looked at, then thrown away
            if a['how'] == 'pickle':
                cp = self.real(_pickle.loads, _pickle.dumps(obj), _what='pickle round trip')
            elif a['how'] == 'copy':
                cp = self.real(_copy.copy, obj, _what='copy.copy')
            else:
                cp = self.real(_copy.deepcopy, obj, _what='copy.deepcopy')
            ctx.probe('snapshot-copy-evaluated')
            out = self._check_function(a['id'], cp, 400.0, None, ())
            del cp
        elif name == 'checkpoint':
            obj = self._get(a['id'])
            d = self.real(obj.to_dict, _what='to_dict')        # kept as it is, not passed through JSON text
            probes = self._probe_points(obj, [0.33, 1.2])
            self.ckpt[a['id']] = (d, list(self.ref[a['id']]), probes, [obj.get_UoRT(x=x, T=400.0) for x in probes],
                                  len(self.edited), ctx.step)
            self._ckpt_edits = getattr(self, '_ckpt_edits', {})
            self._ckpt_edits[a['id']] = 0
            out = 'kept'
        elif name == 'restore':
            if a['id'] not in self.ckpt:
                raise Skip()
            self._get(a['id'])
            d, ref0, probes, vals, _, step0 = self.ckpt.pop(a['id'])
            if getattr(self, '_ckpt_edits', {}).get(a['id'], 0) > 0:
                ctx.probe('restore-after-edits')
            new = self.real(self.cov.PiecewiseCovEffect.from_dict, d, _what='from_dict(dictionary kept since step %d)' % step0)
            got = _ms(zip(new.intervals, new.slopes))
            if got != _ms(ref0):
                raise Violation('reload-unchanged', 'the dictionary serialised at step %d held %r; restored after later edits '
                                'of the object it came from it gives %r' % (step0, list(ref0), got))
            vals2 = [new.get_UoRT(x=x, T=400.0) for x in probes]
            for x, v1, v2 in zip(probes, vals, vals2):
                if not _close(v1, v2, 1e-12, 1e-12):
                    raise Violation('reload-unchanged', 'restored from the dictionary kept since step %d: U(x=%r) %r became %r' % (
                        step0, x, v1, v2))
            self.eff[a['id']] = new
            self.ref[a['id']] = _ms(ref0)
            self.lists[a['id']] = (new.intervals, new.slopes)
            self.group[a['id']] = ('r', a['id'], ctx.step)
            out = len(got)
        elif name == 'eval':
            obj = self._get(a['id'])
            out = self._check_function(a['id'], obj, a['T'], a.get('T2'), a.get('extra', ()))
        else:
            raise Skip()
        # invariants on every effect after every step
        every = int(self.ctx.swarm.get('eval_every', 1))
        if name in ('insert', 'pop') and out != 'refused':
            self._edits_since_eval = getattr(self, '_edits_since_eval', 0) + 1
        if every <= 1 or self.ctx.step % every == 0 or name == 'eval':
            if getattr(self, '_edits_since_eval', 0) >= 2:
                self.ctx.probe('two-edits-between-evaluations')
            self._edits_since_eval = 0
        for k in sorted(self.eff):
            self._check_structure(k)
            if every <= 1 or self.ctx.step % every == 0:
                self._check_function(k, self.eff[k], 350.0, None, ())
        return out

    def finish(self):
        for k in sorted(self.eff):
            self._check_structure(k)
            self._check_function(k, self.eff[k], 350.0, None, ())

    # ------------------------------------------------------------------ oracle
    def _follow_sharers(self, k):
        """Effects built from the same list objects may or may not see the edit
        (the property demands neither isolation nor sharing): their reference
        follows whatever their own lists now say.  They stay fully judged by
        the structural and functional invariants."""
        for j in self.eff:
            if j != k and self.group[j] == self.group[k]:
                self.ctx.probe('shared-lists-edit')
                o = self.eff[j]
                if len(o.intervals) == len(o.slopes):
                    self.ref[j] = _ms(zip(o.intervals, o.slopes))

    def _check_unchanged(self, k, before, inv):
        obj = self.eff[k]
        now = list(zip(obj.intervals, obj.slopes))
        if now != before or len(obj.intervals) != len(obj.slopes):
            raise Violation(inv, 'refused operation changed effect %d: %r -> %r' % (k, before, now))

    def _check_structure(self, k):
        obj = self.eff[k]
        iv, sl = list(obj.intervals), list(obj.slopes)
        if len(iv) != len(sl):
            raise Violation('paired-length', 'effect %d: %d breakpoints, %d slopes' % (k, len(iv), len(sl)))
        if any(x > y for x, y in zip(iv, iv[1:])):
            raise Violation('ascending', 'effect %d breakpoints %r not ascending' % (k, iv))
        if _ms(zip(iv, sl)) != self.ref[k]:
            raise Violation('pairs-preserved', 'effect %d holds %r, reference model %r' % (
                k, list(zip(iv, sl)), self.ref[k]))

    def _probe_points(self, obj, extra):
        iv = [float(v) for v in obj.intervals]
        pts = [0.0]
        for i, b in enumerate(iv):
            if b >= 0:
                pts.append(b)
            nxt = iv[i + 1] if i + 1 < len(iv) else b + 0.25
            m = 0.5 * (b + nxt)
            if m >= 0:
                pts.append(m)
        pts.append(max(iv[-1], 0.0) + 0.5)
        pts.extend(float(e) for e in extra if e >= 0)
        return pts

    def _check_function(self, k, obj, T, T2, extra):
        pairs = [(float(a), float(b)) for a, b in zip(obj.intervals, obj.slopes)]
        smax = max([abs(p[1]) for p in pairs] + [1.0])
        pts = self._probe_points(obj, extra)
        if extra:
            self.ctx.probe('eval-on-breakpoint')
            self.ctx.probe('eval-beyond-last')
        worst = 0.0
        for x in pts:
            u = self.real(obj.get_UoRT, x=x, T=T, _what='get_UoRT')
            e = float(u) * self.R * T
            f = _F(pairs, x)
            tol = 1e-9 * smax * (1.0 + abs(x)) + 1e-9 * abs(f)
            err = abs(e - f)
            worst = max(worst, err)
            if not err <= tol:
                raise Violation('continuous-pwl',
                                'effect %d pairs %r: U(x=%r)*R*T = %r, integral of listed slopes = %r' % (
                                    k, pairs, x, e, f))
            if err > tol / 10:
                self.ctx.near_miss['continuous-pwl'] += 1
            if extra:
                h = self.real(obj.get_HoRT, x=x, T=T, _what='get_HoRT')
                g = self.real(obj.get_GoRT, x=x, T=T, _what='get_GoRT')
                fo = self.real(obj.get_FoRT, x=x, T=T, _what='get_FoRT')
                for nm, v in (('H', h), ('G', g), ('F', fo)):
                    if not _close(v, u, 1e-12, 1e-12 * smax):
                        raise Violation('derived-getters', 'effect %d: %soRT=%r but UoRT=%r at x=%r' % (
                            k, nm, v, u, x))
                # the energy itself, through the inherited dimensional getter
                hd = self.real(obj.get_H, units='kcal/mol', T=T, x=x, _what='get_H(units=kcal/mol)')
                if not _close(float(hd), e, 1e-10, 1e-10 * smax):
                    raise Violation('derived-getters', 'effect %d: get_H(kcal/mol, x=%r) = %r but UoRT*R*T = %r' % (k, x, hd, e))
                if T2:
                    u2 = self.real(obj.get_UoRT, x=x, T=T2, _what='get_UoRT')
                    if not _close(float(u2) * T2, float(u) * T, 1e-10, 1e-9 * smax):
                        raise Violation('T-independent', 'effect %d: U*T differs between T=%r and T=%r' % (k, T, T2))
        if extra:
            for nm in ('get_SoR', 'get_CpoR', 'get_CvoR'):
                v = self.real(getattr(obj, nm), _what=nm)
                if v != 0:
                    raise Violation('no-entropy', 'effect %d: %s() = %r' % (k, nm, v))
        return round(worst, 15)

    def abstract_state(self):
        st = []
        for k in sorted(self.eff):
            iv = list(self.eff[k].intervals)
            ties = len(iv) - len(set(iv))
            shared = sum(1 for j in self.eff if self.group[j] == self.group[k]) > 1
            st.append((len(iv), ties, shared))
        return st

    # ------------------------------------------------------------------ shrink
    def simplify(self, op):
        a = op['args']
        if op['op'] == 'insert':
            for x in (round(a['x'], 1), round(a['x'], 2)):
                if x != a['x'] and (x >= 0) == (a['x'] >= 0):
                    yield {**op, 'args': {**a, 'x': float(x)}}
            for s in (1.0, float(round(a['s']))):
                if s != a['s']:
                    yield {**op, 'args': {**a, 's': s}}
        elif op['op'] == 'new':
            n = len(a['intervals'])
            for m in range(1, n):
                yield {**op, 'args': {**a, 'intervals': a['intervals'][:m], 'slopes': a['slopes'][:m]}}
            if a.get('share_with') is not None:
                yield {**op, 'args': {**a, 'share_with': None}}
            r = [round(v, 1) for v in a['intervals']]
            if r != a['intervals'] and all(x < y for x, y in zip(r, r[1:])):
                yield {**op, 'args': {**a, 'intervals': r}}
            s = [float(round(v)) for v in a['slopes']]
            if s != a['slopes']:
                yield {**op, 'args': {**a, 'slopes': s}}
            s1 = [float(i + 1) for i in range(n)]
            if s1 != a['slopes']:
                yield {**op, 'args': {**a, 'slopes': s1}}
        elif op['op'] == 'eval':
            if a.get('extra'):
                yield {**op, 'args': {**a, 'extra': a['extra'][:1]}}
        elif op['op'] == 'reload':
            if a.get('cycles', 1) > 1:
                yield {**op, 'args': {**a, 'cycles': 1}}


def _close(a, b, rtol, atol):
    a, b = float(a), float(b)
    return abs(a - b) <= atol + rtol * max(abs(a), abs(b))
