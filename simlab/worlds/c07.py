"""World C07: OpenMKM / Cantera files.  Several coexisting phase objects populated incrementally by several
clients; CTI, thermo-YAML and reactor-YAML written repeatedly over a fault-injecting file system."""
import contextlib
import io
import math
import re

from ..core import World, Violation, Skip
from ..filekit import FileKit, WRITE_FAULTS, READ_FAULTS, gen_fault, gen_alloc, gen_jump, side_stream

H2O_LOW = [4.19864056E+00, -2.03643410E-03, 6.52040211E-06, -5.48797062E-09, 1.77197817E-12, -3.02937267E+04,
           -8.49032208E-01]
H2O_HIGH = [3.03399249E+00, 2.17691804E-03, -1.64072518E-07, -9.70419870E-11, 1.68200992E-14, -3.00042971E+04,
            4.96677010E+00]
SHO_A = [30.09200, 6.832514, 6.793435, -2.534480, 0.082139, -250.8810, 223.3967, -241.8264]
N9_A = [2.210371497E+04, -3.818461820E+02, 6.082738360E+00, -8.530914410E-03, 1.384646189E-05, -9.625793620E-09,
        2.519705809E-12, 7.108460860E+02, -1.076003744E+01]
UNIT_CHOICES = {'length': ['cm', 'm'], 'quantity': ['mol', 'molec'], 'act_energy': ['kcal/mol', 'kJ/mol', 'cal/mol', 'J/mol'],
                'energy': ['kcal', 'kJ', 'cal', 'J'], 'mass': ['g', 'kg'], 'pressure': ['bar', 'atm', 'Pa'], 'time': ['s']}
SURF = ['terrace', 'step']


def close(a, b, rel=1e-9):
    a, b = float(a), float(b)
    return abs(a - b) <= rel * max(abs(a), abs(b), 1e-300)


# adsorbate names as they appear in published mechanisms (isomer prefixes, hyphens, primes are all legal in CTI/YAML)
ADS_NAMES = ['trans-COOH', 'cis-COOH', 'bi-HCOO', 'mono-HCOO', 'CH3CH2OH', 'CH3-CH2', 'n-C3H7', 'iso-C3H7', 'H2O-OH', 'NH2',
             'NNH', 'HCOH', 'CH3O', 'eta2-CH2O', 'O-O', 'di-sigma-C2H4', 'pi-C2H4', 'COH', 'HCO', 'OH',
             '\u03b72-C2H4', '\u03bc2-C2H4', '\u03bc3-CO']      # hapticity / bridging prefixes as printed in papers


class WorldC07(World):
    PROP = 'C07'
    RUNS = {'quick': 1200, 'thorough': 25000}
    WALL = {'quick': 50, 'thorough': 560}
    STATE_CHANGING = ('mkmodel', 'mkphases', 'append', 'extend', 'remove', 'pop', 'clear', 'swap', 'organize', 'write_cti',
                      'write_thermo_yaml', 'write_yaml')
    STATE_RULE = 'per phase: (type, number of members bucket, built with/without/empty list), reactions with auto ids, writes so far'
    PROBES = ('phase-built-without-species', 'phase-built-with-empty-list', 'two-interfaces-without-species', 'append-species',
              'remove-species', 'clear-then-refill', 'organize-phases', 'organize-same-rows-twice', 'organize-after-placement',
              'reactions-written-in-two-orders', 'auto-and-user-ids-mixed', 'bep-transition-state', 'explicit-transition-state',
              'adsorption-reaction', 'lateral-interactions', 'unnamed-interaction', 'motz-wise-on', 'shomate-species', 'nasa9-species',
              'cti-executed', 'yaml-loaded', 'reactor-yaml', 'reactor-reused-dict', 'numpy-values', 'string-values-with-units',
              'units-omitted', 'text-path', 'file-path', 'overwrite', 'write-after-failed-write', 'recovery-after-fault', 'write-through-symlink', 'phase-reaction-ids-judged', 'objects-looked-at-between-writes', 'relative-name-in-case-directory', 'alloc-failure-signalled', 'alloc-failure-over-existing-file',
              'clock-jump-before-write', 'default-units', 'bep-section-judged', 'same-size-other-elements-after-a-write',
              'explicit-zero-barrier', 'non-ascii-name', 'write-with-partial-membership', 'nasa9-ranges-judged', 'reactor-initial-state',
              'capitalised-phase-names', 'phase-mechanism-links-judged')
    REAL = ('pmutt.io.omkm (write_cti, write_thermo_yaml, write_yaml, organize_phases)', 'pmutt.omkm.phase / pmutt.cantera.phase',
            'pmutt.omkm.reaction.SurfaceReaction / BEP', 'pmutt.mixture.cov.PiecewiseCovEffect', 'Nasa / Nasa9 / Shomate emitters',
            'pmutt.io.ctml_writer (the repo\'s CTI interpreter, used to execute written CTI text)', 'PyYAML')
    SIMULATED = ('disk: SimFS', 'clock: SimClock bound to pmutt.io.datetime', 'hash seed (element sets)',
                 'allocator: SimAlloc (MemoryError at a seeded function entry of the writer call)',
                 'file names: symbolic links, bare names from changing working directories',
                 'modeller and writer clients interleaved over coexisting phase objects')
    ASSUMPTIONS = ('rate parameters are compared with the getters of a twin model rebuilt from the same description',
                   'generated XML (write_xml=True) is outside the property and never requested',)
    TRIGGERS = {
        'C07-unnamed-bep-organize': 'organize_phases is called while a reaction uses a BEP without a name',
        'C07-interaction-per-molecule': 'lateral interactions are written with the quantity unit molec (the default unit system)',
    }
    MAX_STEPS = 40

    # ------------------------------------------------------------------ gen
    def gen_swarm(self, rng, tier):
        return {'n_clients': rng.randint(1, 3), 'paths': ['o%d.txt' % i for i in range(rng.randint(1, 3))],
                'fault_rate': rng.choice([0.0, 0.0, 0.15, 0.3]),
                'fault_kinds': sorted(rng.sample(WRITE_FAULTS, rng.randint(1, 7))),
                'jump_rate': rng.choice([0.0, 0.2, 0.5]), 'n_surf': rng.choice([1, 1, 2]),
                'route': rng.choice(['organize', 'manual', 'manual']), 'n_rxn': rng.choice([0, 1, 3, 6, 12, 40]),
                'n_inter': rng.choice([0, 0, 2, 5, 10]), 'kinds': rng.choice([['Nasa'], ['Nasa', 'Shomate'], ['Nasa', 'Shomate', 'Nasa9']]),
                'w_model': rng.choice([1, 2, 3]), 'w_write': rng.choice([2, 3]), 'w_reactor': rng.choice([1, 1, 3]), 'enum': tier == 'thorough' and rng.random() < 0.15,
                'long_names': rng.random() < 0.4, 'cap_names': rng.random() < 0.3}

    def n_steps(self, rng, swarm):
        return rng.randint(5, 18)

    def setup(self, swarm):
        import numpy as np
        import yaml
        import pmutt.io.omkm as oio
        import pmutt.io.ctml_writer as cw
        import pmutt.omkm.phase as oph
        import pmutt.omkm.reaction as orx
        import pmutt.omkm.units as ou
        import pmutt.empirical.nasa as nasa
        import pmutt.empirical.shomate as sho
        import pmutt.mixture.cov as cov
        self.np, self.yaml, self.oio, self.cw, self.oph, self.orx, self.ou = np, yaml, oio, cw, oph, orx, ou
        self.nasa, self.sho, self.cov = nasa, sho, cov
        self.kit = FileKit(self)
        self.md = None          # model description
        self.live = None        # real objects: species, reactions, interactions, beps
        self.phases = {}        # name -> real phase object
        self.pinfo = {}         # name -> {'type', 'built'}
        self.members = {}       # name -> reference membership (list of species names)
        self.rows_used = None
        self.plan = []
        self.orders_written = set()
        self.n_writes = 0
        self.cleared = set()

    def teardown(self):
        self.kit.teardown()

    def _gen_model(self, rng):
        sw = self.ctx.swarm
        surf = SURF[:sw['n_surf']]
        GAS, BULK = 'gas', 'bulk'
        if sw.get('cap_names'):
            # phase names as people type them: 'Gas', 'Bulk', 'Terrace'
            surf = [x.capitalize() for x in surf]
            GAS, BULK = 'Gas', 'Bulk'
            self.ctx.probe('capitalised-phase-names')
        el = lambda: {e: rng.randint(1, 3) for e in rng.sample(['H', 'N', 'C', 'O'], rng.randint(1, 2))}
        sp = []
        for nm in rng.sample(['H2', 'N2', 'NH3', 'CO', 'CH4', 'O2'], rng.randint(1, 4)):
            sp.append({'name': nm, 'phase': GAS, 'elements': el(), 'n_sites': None})
        sp.append({'name': 'RU(B)', 'phase': BULK, 'elements': {'Ru': 1}, 'n_sites': None})
        for s in surf:
            tag = s[0].upper()
            sp.append({'name': 'RU(%s)' % tag, 'phase': s, 'elements': {'Ru': 1}, 'n_sites': 1})
            long_names = sw.get('long_names')
            pool = rng.sample(ADS_NAMES, len(ADS_NAMES))
            for j in range(rng.randint(1, 12 if long_names else 5)):
                e = el()
                nm = '%s(%s)' % (pool[j], tag) if long_names else 'A%d(%s)' % (j, tag)
                if not nm.isascii():
                    self.ctx.probe('non-ascii-name')
                sp.append({'name': nm, 'phase': s, 'elements': e, 'n_sites': rng.choice([1, 1, 2])})
        for d in sp:
            d['kind'] = rng.choice(sw['kinds'])
            if d['kind'] == 'Nasa9' and rng.random() < 0.4:
                d['n9_order'] = 'desc'
            d['scale'] = round(rng.uniform(0.8, 1.2), 4)
            d['shift'] = round(rng.uniform(-6000, 6000), 1)
        ts, beps, rxs = [], [], []
        gas = [d['name'] for d in sp if d['phase'] == GAS]
        id_style = rng.choice(['auto', 'auto', 'user', 'mixed'])
        for r in range(rng.randint(0, sw['n_rxn']) if sw['n_rxn'] else 0):
            s = rng.choice(surf)
            tag = s[0].upper()
            ads = [d['name'] for d in sp if d['phase'] == s and not d['name'].startswith('RU(')]
            vac = 'RU(%s)' % tag
            rxd = {'ts': None, 'bep': None, 'is_adsorption': False, 'sticking_coeff': None, 'beta': None, 'A': None, 'Ea': None,
                   'direction': None, 'id': None}
            if rng.random() < 0.3:
                n = rng.choice([1, 2])
                rxd.update(reactants=[[rng.choice(gas), 1], [vac, n]], products=[[rng.choice(ads), n], ['RU(B)', n]],
                           is_adsorption=True, sticking_coeff=rng.choice([None, round(rng.uniform(0.01, 1), 3)]),
                           beta=rng.choice([None, 0]))
            else:
                a = rng.sample(ads, rng.randint(1, min(2, len(ads))))
                b = rng.sample(ads, rng.randint(1, min(2, len(ads))))
                rxd.update(reactants=[[x, rng.choice([1, 1, 2])] for x in a] + [[vac, 1]],
                           products=[[x, rng.choice([1, 1, 2])] for x in b] + [['RU(B)', 1]], beta=rng.choice([None, 1, 0.5]))
                k = rng.random()
                if k < 0.4:
                    tn = 'TS%d' % len(ts)
                    ts.append({'name': tn, 'phase': s, 'elements': {'H': 1}, 'n_sites': 1, 'kind': 'Nasa',
                               'scale': round(rng.uniform(0.8, 1.2), 4), 'shift': round(rng.uniform(2000, 14000), 1)})
                    rxd['ts'] = tn
                elif k < 0.6:
                    if beps and rng.random() < 0.5:
                        rxd['bep'] = rng.randrange(len(beps))
                    else:
                        beps.append({'name': rng.choice([None, 'B%d' % len(beps)]), 'slope': round(rng.uniform(0, 1), 3),
                                     'intercept': round(rng.uniform(0, 60), 2), 'direction': rng.choice(['cleavage', 'synthesis'])})
                        rxd['bep'] = len(beps) - 1
                    rxd['direction'] = beps[rxd['bep']]['direction']
                elif k < 0.75:
                    rxd['A'] = round(10 ** rng.uniform(8, 20), 3)
                    rxd['Ea'] = rng.choice([round(rng.uniform(0, 40), 3)] * 3 + [0.0, 0])     # 0: declared barrierless
            if id_style == 'user' or (id_style == 'mixed' and rng.random() < 0.5):
                x_ = rng.random()
                # (a second prefix numbered by list position puts 'ads_0002' right after 'r_0001': adjacent numbers across prefixes)
                rxd['id'] = 'r_%04d' % r if x_ < 0.6 else ('ads_%04d' % r if x_ < 0.85 else 'rxn_%04d' % (100 + r))
            rxs.append(rxd)
        inter = []
        for i in range(rng.randint(0, sw['n_inter']) if sw['n_inter'] else 0):
            s = rng.choice(surf)
            ads = [d['name'] for d in sp if d['phase'] == s and not d['name'].startswith('RU(')]
            n = rng.randint(1, 3)
            iv = [0.0] + sorted(set(round(rng.uniform(0.1, 0.9), 2) for _ in range(n - 1))) + [1.0]
            inter.append({'name_i': rng.choice(ads), 'name_j': rng.choice(ads), 'intervals': iv,
                          'slopes': [round(rng.uniform(-60, 10), 2) for _ in iv[:-1]], 'name': rng.choice([None, None, 'li_%04d' % (50 + i)])})
        rows = [{'name': GAS, 'phase_type': 'IdealGas'}, {'name': BULK, 'phase_type': 'StoichSolid', 'density': round(rng.uniform(5, 25), 2)}]
        for s in surf:
            rows.append({'name': s, 'phase_type': 'InteractingInterface', 'site_density': round(10 ** rng.uniform(-10, -8.5), 13),
                         'phases': [GAS, BULK]})
        if rng.random() < 0.4:
            # the gas the reactor starts with: ordinary fractions, a ppm-level impurity, a nearly pure carrier
            gs = [d['name'] for d in sp if d['phase'] == GAS]
            vals = [rng.choice([0.5, 0.25, 1.234567e-4, 4e-8, 0.99999975, round(rng.uniform(0, 1), 6)]) for _ in gs]
            rows[0]['initial_state'] = {n: v for n, v in zip(gs, vals)}
        return {'species': sp, 'ts': ts, 'beps': beps, 'reactions': rxs, 'interactions': inter, 'rows': rows}

    def _gen_units(self, rng):
        r = rng.random()
        if r < 0.15:
            return None
        if r < 0.25:
            return {}
        return {k: rng.choice(v) for k, v in UNIT_CHOICES.items()}

    def gen_op(self, rng):
        if self.plan:
            return self.plan.pop(0)
        side = side_stream(rng)
        op = self._gen_op0(rng)
        if op is not None and self.live is not None and side.random() < 0.06:
            return {'c': 0, 'op': 'touch', 'args': {
                'calls': [side.choice(['str', 'to_dict', 'eq', 'to_string', 'sp_to_dict', 'ph_to_dict']) for _ in range(side.randint(1, 3))],
                'sf': side.choice(['.0f', '.1f', '.2f', '.3f']), 'ts': side.random() < 0.7}}
        if op is not None and op['op'] in ('write_cti', 'write_thermo_yaml', 'write_yaml') and op['args'].get('to_file') \
                and op.get('fault') is None and side.random() < 0.12:
            op['args']['link'] = True
        elif op is not None and op['op'].startswith('write') and isinstance(op.get('args'), dict) and side.random() < 0.15:
            op['args']['rel'] = side.choice(['caseA', 'caseB', 'caseB/run2'])
        if op is not None and op['op'] in ('write_cti', 'write_thermo_yaml', 'write_yaml') and op['args'].get('to_file') \
                and rng.random() < 0.06:
            # scripted: the disk fills up half-way through a write; the caller frees space and writes the same thing again;
            # later the interpreter collects what the failed call left behind
            import copy as _copy
            first = _copy.deepcopy(op)
            first['fault'] = {'kind': 'write_error', 'k': 0.5, 'errno': 'ENOSPC'}
            first['gc'] = False
            second = _copy.deepcopy(op)
            second['fault'] = None
            second['gc'] = False
            if 'T' in second['args']:
                second['args']['T'] = round(second['args']['T'] + 53.0, 2)     # (other numbers than the failed attempt's)
            for k_, v_ in list((second['args'].get('opts') or {}).items()):
                if isinstance(v_, (int, float)) and not isinstance(v_, bool):
                    second['args']['opts'][k_] = v_ * 2 + 1
            third = _copy.deepcopy(second)
            third['gc'] = True
            self.plan = [second, third]
            return first
        if op is not None:
            # when the interpreter gets round to finalising handles an earlier failed call may have left open
            op['gc'] = rng.random() < 0.5
            failed = sorted(self.kit.failed_last)
            if failed and isinstance(op.get('args'), dict) and 'path' in op['args'] and op.get('fault') is None:
                # right after a failed write: the caller tries the same file again, before anything has been collected
                if rng.random() < 0.6:
                    op['args']['path'] = rng.choice(failed)
                    op['gc'] = False
        return op

    def _gen_op0(self, rng):
        sw = self.ctx.swarm
        c = rng.randrange(sw['n_clients'])
        if self.md is None:
            return {'c': c, 'op': 'mkmodel', 'args': {'model': self._gen_model(rng)}}
        if not self.phases:
            if sw['route'] == 'organize' and (self.ctx.allow('C07-unnamed-bep-organize') or all(b['name'] for b in self.md['beps'])):
                return {'c': c, 'op': 'organize', 'args': {'fresh_rows': True}}
            built = {}
            for row in self.md['rows']:
                built[row['name']] = rng.choice(['none', 'none', 'empty', 'list', 'partial'])
            return {'c': c, 'op': 'mkphases', 'args': {'built': built}}
        jump = gen_jump(rng) if rng.random() < sw['jump_rate'] else None
        kinds = ['model'] * sw['w_model'] + ['write'] * sw['w_write'] + ['reactor'] * sw.get('w_reactor', 1)
        kind = rng.choice(kinds)
        if kind == 'model':
            pname = rng.choice(sorted(self.phases))
            mem = self.members[pname]
            own = [d['name'] for d in self.md['species'] if d['phase'] == pname]
            missing = [n for n in own if n not in mem]
            choices = []
            if missing:
                choices += ['append', 'append', 'extend']
            if mem:
                choices += ['remove', 'pop']
                if rng.random() < 0.2:
                    choices += ['clear']
            if mem and missing:
                choices += ['swap', 'swap']
            can_org = self.ctx.allow('C07-unnamed-bep-organize') or all(b['name'] for b in self.md['beps'])
            if rng.random() < 0.15 and can_org:
                choices += ['organize']
            if not choices:
                choices = ['organize'] if can_org else ['noop']
            e = rng.choice(choices)
            if e == 'append':
                return {'c': c, 'op': 'append', 'args': {'phase': pname, 'species': rng.choice(missing)}}
            if e == 'swap':
                # one species out, another in: the phase keeps its size, its element set may not
                return {'c': c, 'op': 'swap', 'args': {'phase': pname, 'out': rng.choice(mem), 'in': rng.choice(missing)}}
            if e == 'extend':
                return {'c': c, 'op': 'extend', 'args': {'phase': pname, 'species': rng.sample(missing, rng.randint(1, len(missing)))}}
            if e == 'remove':
                return {'c': c, 'op': 'remove', 'args': {'phase': pname, 'species': rng.choice(mem)}}
            if e == 'pop':
                return {'c': c, 'op': 'pop', 'args': {'phase': pname, 'i': rng.randrange(len(mem))}}
            if e == 'clear':
                return {'c': c, 'op': 'clear', 'args': {'phase': pname}}
            if e == 'noop':
                return None
            return {'c': c, 'op': 'organize', 'args': {'fresh_rows': rng.random() < 0.5}}
        path = rng.choice(sw['paths'])
        wf = sw['fault_kinds']
        to_file = rng.random() < 0.7
        fault = gen_fault(rng, wf) if to_file and wf and rng.random() < sw['fault_rate'] else None
        if to_file and fault is None:
            fault = gen_alloc(rng)
        if kind == 'reactor':
            return {'c': c, 'op': 'write_yaml', 'fault': fault, 'jump': jump,
                    'args': {'path': path, 'to_file': to_file, 'newline': rng.choice(['\n', '\r\n']), 'opts': self._gen_reactor(rng),
                             'units': self._gen_units(rng) if rng.random() < 0.8 else None, 'reuse_dicts': rng.random() < 0.3,
                             'with_phases': rng.random() < 0.8}}
        n = len(self.md['reactions'])
        order = list(range(n))
        r = rng.random()
        if r < 0.3:
            rng.shuffle(order)
        elif r < 0.5 and n > 1 and not any(x['bep'] is not None for x in self.md['reactions']):
            # (a BEP lists every reaction built with it, so a mechanism with BEPs is always written whole)
            k = rng.randint(1, n - 1)
            order = order[:k]
        elif r < 0.65 and n > 1:
            k = rng.randint(1, n - 1)
            order = order[k:] + order[:k]
        units = self._gen_units(rng)
        with_inter = True        # phases refer to their interactions: the writer must be handed them
        if self.md['interactions'] and not self.ctx.allow('C07-interaction-per-molecule') and \
                (not units or units.get('quantity') == 'molec'):
            base = {'length': 'cm', 'quantity': 'mol', 'act_energy': 'cal/mol', 'energy': 'cal', 'mass': 'kg',
                    'pressure': 'bar', 'time': 's'}
            units = dict(base, **dict(units or {}, quantity='mol'))
        return {'c': c, 'op': rng.choice(['write_cti', 'write_thermo_yaml']), 'fault': fault, 'jump': jump,
                'args': {'path': path, 'to_file': to_file, 'newline': rng.choice(['\n', '\n', '\r\n']), 'order': order,
                         'units': units, 'T': round(rng.uniform(300, 1000), 1), 'P': rng.choice([1.0, 2.5]),
                         'use_motz_wise': rng.random() < 0.4, 'with_inter': with_inter,
                         'enum': sw['enum'] and to_file and rng.random() < 0.3}}

    def _gen_reactor(self, rng):
        np = self.np
        o = {}

        def num(lo, hi, unit):
            v = round(rng.uniform(lo, hi), 4)
            r = rng.random()
            if r < 0.15:
                return {'np': 'float64', 'v': v}
            if r < 0.25:
                return {'np': 'int64', 'v': int(v) + 1}
            if r < 0.45 and unit:
                return '%s %s' % (v, unit)
            return v
        table = [('reactor_type', lambda: rng.choice(['pfr', 'cstr', 'batch', 'pfr_0d'])),
                 ('temperature_mode', lambda: rng.choice(['isothermal', 'adiabatic'])),
                 ('pressure_mode', lambda: rng.choice(['isobaric', 'isochoric'])), ('nodes', lambda: rng.randint(1, 50)),
                 ('V', lambda: num(0.1, 100, 'cm3')), ('T', lambda: num(300, 1200, None)), ('P', lambda: num(0.1, 50, 'atm')),
                 ('A', lambda: num(0.1, 100, 'cm2')), ('L', lambda: num(0.1, 100, 'cm')), ('cat_abyv', lambda: num(1, 3000, '/cm')),
                 ('flow_rate', lambda: num(0.1, 100, 'cm3/s')), ('residence_time', lambda: num(0.01, 100, 's')),
                 ('mass_flow_rate', lambda: num(0.01, 10, 'g/s')), ('end_time', lambda: num(1, 1000, 's')),
                 ('transient', lambda: rng.random() < 0.5), ('stepping', lambda: rng.choice(['logarithmic', 'regular'])),
                 ('init_step', lambda: rng.choice([1e-15, 1e-6])), ('step_size', lambda: num(1.01, 10, None)),
                 ('atol', lambda: rng.choice([1e-15, 1e-10])), ('rtol', lambda: rng.choice([1e-10, 1e-6])),
                 ('full_SA', lambda: rng.random() < 0.5), ('output_format', lambda: rng.choice(['csv', 'dat'])),
                 ('multi_T', lambda: [round(rng.uniform(300, 1200), 1) for _ in range(rng.randint(1, 4))]),
                 ('multi_P', lambda: [round(rng.uniform(0.1, 10), 2) for _ in range(rng.randint(1, 4))]),
                 ('multi_flow_rate', lambda: [round(rng.uniform(0.1, 10), 2) for _ in range(rng.randint(1, 4))]),
                 ('species_SA', lambda: ['H2']), ('reactions_SA', lambda: ['r_0000'])]
        for k, f in table:
            if rng.random() < 0.45:
                o[k] = f()
        return o

    # ------------------------------------------------------------------ building
    def _mk_species(self, d):
        np = self.np
        kw = dict(name=d['name'], phase=d['phase'], elements=dict(d['elements']))
        lo = [v * d['scale'] for v in H2O_LOW]
        hi = [v * d['scale'] for v in H2O_HIGH]
        lo[5] += d['shift']
        hi[5] += d['shift']
        if d['kind'] == 'Nasa':
            return self.nasa.Nasa(T_low=100.0, T_mid=1000.0, T_high=3500.0, a_low=lo, a_high=hi, n_sites=d['n_sites'], **kw)
        if d['kind'] == 'Shomate':
            a = [v * d['scale'] for v in SHO_A]
            a[5] += d['shift'] / 120.0
            return self.sho.Shomate(T_low=100.0, T_high=3500.0, a=np.array(a), units='J/mol/K', n_sites=d['n_sites'], **kw)
        segs = [self.nasa.SingleNasa9(T_low=100.0, T_high=1000.0, a=np.array([v * d['scale'] for v in N9_A])),
                self.nasa.SingleNasa9(T_low=1000.0, T_high=3500.0, a=np.array([v * d['scale'] * 1.01 for v in N9_A]))]
        if d.get('n9_order') == 'desc':
            segs.reverse()                 # intervals listed hot to cold: legal, the object evaluates them by range
        return self.nasa.Nasa9(nasas=segs, n_sites=d['n_sites'] or 1, **kw)

    def _build(self, md):
        sp = {d['name']: self._mk_species(d) for d in md['species'] + md['ts']}
        beps = [self.orx.BEP(name=b['name'], slope=b['slope'], intercept=b['intercept'], direction=b['direction'])
                for b in md['beps']]
        rxs = []
        for r in md['reactions']:
            if r['ts']:
                TS = [sp[r['ts']]]
            elif r['bep'] is not None:
                TS = [beps[r['bep']]]
            else:
                TS = None
            rxs.append(self.orx.SurfaceReaction(
                reactants=[sp[n] for n, _ in r['reactants']], reactants_stoich=[v for _, v in r['reactants']],
                products=[sp[n] for n, _ in r['products']], products_stoich=[v for _, v in r['products']],
                transition_state=TS, transition_state_stoich=[1] if TS else None, id=r['id'], is_adsorption=r['is_adsorption'],
                A=r['A'], beta=r['beta'], Ea=r['Ea'], sticking_coeff=r['sticking_coeff'], direction=r['direction']))
        inter = [self.cov.PiecewiseCovEffect(name_i=i['name_i'], name_j=i['name_j'], intervals=list(i['intervals']),
                                             slopes=list(i['slopes']), name=i['name']) for i in md['interactions']]
        return {'species': sp, 'list': [sp[d['name']] for d in md['species']], 'reactions': rxs, 'beps': beps, 'interactions': inter}

    def _mk_phase(self, row, species, reactions=None, interactions=None, built='list'):
        kw = {k: v for k, v in row.items() if k not in ('phase_type',)}
        cls = getattr(self.oph, row['phase_type'])
        if built == 'none':
            return cls(**kw)
        if reactions is not None and row['phase_type'] != 'StoichSolid':
            kw['reactions'] = reactions
        if interactions is not None and row['phase_type'] == 'InteractingInterface':
            kw['interactions'] = interactions
        return cls(species=species, **kw)

    def _twin(self):
        """A fresh model whose phases hold exactly the reference membership (for expected rate parameters)."""
        md = self.md
        tw = self._build(md)
        ph = {}
        for row in md['rows']:
            if row['name'] in self.members:
                ph[row['name']] = self._mk_phase(row, [tw['species'][n] for n in self.members[row['name']]])
        # transition states live on their surface for site densities
        for d in md['ts']:
            if d['phase'] in ph:
                tw['species'][d['name']].phase = ph[d['phase']]
        tw['phases'] = ph
        return tw

    # ------------------------------------------------------------------ membership oracle
    def _check_membership(self, what):
        for name, ph in sorted(self.phases.items()):
            got = [s.name for s in ph.species]
            if got != self.members[name]:
                raise Violation('phase-membership', '%s: phase %r lists %r, the modellers put %r there' % (
                    what, name, got, self.members[name]))

    # ------------------------------------------------------------------ apply
    def apply(self, op):
        a = op['args']
        name = op['op']
        ctx, kit = self.ctx, self.kit
        md = self.md
        if name == 'mkmodel':
            if self.md is not None:
                raise Skip()
            m = a['model']
            names = set(d['name'] for d in m['species'] + m['ts'])
            for r in m['reactions']:
                if any(n not in names for n, _ in r['reactants'] + r['products']) or (r['ts'] and r['ts'] not in names) or \
                        (r['bep'] is not None and not (0 <= r['bep'] < len(m['beps']))):
                    raise Skip()
            if any(i['name_i'] not in names or i['name_j'] not in names for i in m['interactions']):
                raise Skip()
            self.md = m
            self.live = self.real(self._build, m, _what='building species, reactions, BEPs and interactions')
            for r in m['reactions']:
                if r['ts']:
                    ctx.probe('explicit-transition-state')
                if r['bep'] is not None:
                    ctx.probe('bep-transition-state')
                if r['is_adsorption']:
                    ctx.probe('adsorption-reaction')
            ids = [r['id'] for r in m['reactions']]
            if any(i is None for i in ids) and any(i is not None for i in ids):
                ctx.probe('auto-and-user-ids-mixed')
            if m['interactions']:
                ctx.probe('lateral-interactions')
            if any(i['name'] is None for i in m['interactions']):
                ctx.probe('unnamed-interaction')
            if any(d['kind'] == 'Shomate' for d in m['species']):
                ctx.probe('shomate-species')
            if any(d['kind'] == 'Nasa9' for d in m['species']):
                ctx.probe('nasa9-species')
            return len(m['species'])
        if md is None:
            raise Skip()
        if name == 'mkphases':
            if self.phases:
                raise Skip()
            n_empty_if = 0
            for row in md['rows']:
                built = a['built'].get(row['name'], 'list')
                own = [d['name'] for d in md['species'] if d['phase'] == row['name']]
                if built == 'none':
                    ctx.probe('phase-built-without-species')
                    if row['phase_type'] == 'InteractingInterface':
                        n_empty_if += 1
                    mem = []
                elif built == 'empty':
                    ctx.probe('phase-built-with-empty-list')
                    mem = []
                elif built == 'partial':
                    mem = own[:max(1, len(own) // 2)]
                else:
                    mem = list(own)
                rx = [r for r, rd in zip(self.live['reactions'], md['reactions'])
                      if any(self._phase_of(n) == row['name'] for n, _ in rd['reactants'] + rd['products'])]
                it = [i for i, idd in zip(self.live['interactions'], md['interactions']) if self._phase_of(idd['name_i']) == row['name']]
                ph = self.real(self._mk_phase, row, [self.live['species'][n] for n in mem], rx or None, it or None, built,
                               _what='%s constructor' % row['phase_type'])
                if built == 'none' and row['phase_type'] != 'StoichSolid':
                    ph.reactions = rx or None
                    if row['phase_type'] == 'InteractingInterface':
                        ph.interactions = it or None
                self.phases[row['name']] = ph
                self.pinfo[row['name']] = {'type': row['phase_type'], 'built': built}
                self.members[row['name']] = list(mem)
            if n_empty_if >= 2:
                ctx.probe('two-interfaces-without-species')
            out = len(self.phases)
        elif name in ('append', 'extend', 'remove', 'pop', 'clear', 'swap'):
            if a['phase'] not in self.phases:
                raise Skip()
            ph, mem = self.phases[a['phase']], self.members[a['phase']]
            if name == 'swap':
                if a['out'] not in mem or a['in'] in mem or a['in'] not in self.live['species']:
                    raise Skip()
                els = lambda names: set(e for d in md['species'] if d['name'] in names for e in d['elements'])
                self.real(ph.remove_species, a['out'], _what='remove_species')
                mem.remove(a['out'])
                before = els(mem + [a['out']])
                self.real(ph.append_species, self.live['species'][a['in']], _what='append_species')
                mem.append(a['in'])
                if els(mem) != before and self.n_writes:
                    ctx.probe('same-size-other-elements-after-a-write')
            elif name == 'append':
                if a['species'] in mem or a['species'] not in self.live['species']:
                    raise Skip()
                ctx.probe('append-species')
                if a['phase'] in self.cleared:
                    ctx.probe('clear-then-refill')
                self.real(ph.append_species, self.live['species'][a['species']], _what='append_species')
                mem.append(a['species'])
            elif name == 'extend':
                new = [n for n in a['species'] if n not in mem and n in self.live['species']]
                if not new:
                    raise Skip()
                self.real(ph.extend_species, [self.live['species'][n] for n in new], _what='extend_species')
                mem.extend(new)
            elif name == 'remove':
                if a['species'] not in mem:
                    raise Skip()
                ctx.probe('remove-species')
                self.real(ph.remove_species, a['species'], _what='remove_species')
                mem.remove(a['species'])
            elif name == 'pop':
                if not (0 <= a['i'] < len(mem)):
                    raise Skip()
                self.real(ph.pop_species, a['i'], _what='pop_species')
                mem.pop(a['i'])
            else:
                self.real(ph.clear_species, _what='clear_species')
                del mem[:]
                self.cleared.add(a['phase'])
            out = len(mem)
        elif name == 'organize':
            ctx.probe('organize-phases')
            placed = bool(self.phases)
            if placed:
                ctx.probe('organize-after-placement')
            if a.get('fresh_rows') or self.rows_used is None:
                rows = [dict(r) for r in md['rows']]
            else:
                rows = self.rows_used
                ctx.probe('organize-same-rows-twice')
            self.rows_used = rows
            sp_list = self.live['list']
            phases = self.real(self.oio.organize_phases, rows, species=sp_list, reactions=self.live['reactions'] or None,
                               interactions=self.live['interactions'] or None, _what='organize_phases')
            self.phases = {}
            for row, ph in zip(md['rows'], phases):
                self.phases[row['name']] = ph
                self.pinfo[row['name']] = {'type': row['phase_type'], 'built': 'organize'}
                self.members[row['name']] = [d['name'] for d in md['species'] if d['phase'] == row['name']]
            if len(phases) != len(md['rows']):
                raise Violation('phase-membership', 'organize_phases returned %d phases for %d rows' % (len(phases), len(md['rows'])))
            out = len(phases)
        elif name == 'touch':
            # between two writes the caller looks at its objects: prints, compares, serialises them
            try:
                rx = self.live['reactions']
                for what in a['calls']:
                    if what == 'sp_to_dict':
                        for sp_ in self.live['list']:
                            sp_.to_dict()
                    elif what == 'ph_to_dict':
                        for ph_ in self.phases.values():
                            ph_.to_dict()
                    for i_, r_ in enumerate(rx):
                        if what == 'str':
                            str(r_)
                        elif what == 'to_dict':
                            r_.to_dict()
                        elif what == 'eq':
                            r_ == rx[(i_ + 1) % len(rx)]
                        elif what == 'to_string':
                            r_.to_string(stoich_format=a.get('sf', '.2f'), include_TS=a.get('ts', True))
            except Exception:
                raise Skip()           # whether these calls work is not this property's business
            ctx.probe('objects-looked-at-between-writes')
            out = 'touched'
        elif name in ('write_cti', 'write_thermo_yaml'):
            kit.tick(op)
            out = self._op_write_thermo(name, a, op.get('fault'))
        elif name == 'write_yaml':
            kit.tick(op)
            out = self._op_write_reactor(a, op.get('fault'))
        else:
            raise Skip()
        self._check_membership('after %s' % name)
        return out

    def _phase_of(self, species_name):
        for d in self.md['species'] + self.md['ts']:
            if d['name'] == species_name:
                return d['phase']
        return None

    # ------------------------------------------------------------------ thermo writers
    def _units_obj(self, u):
        if u is None:
            return None, self.ou.Units()
        return dict(u), self.ou.Units(**u)

    def _species_handed(self):
        """Names of the species handed to the writer: all of them, or - while a phase is being refilled - those placed."""
        placed = set(n for mem in self.members.values() for n in mem)
        return [d['name'] for d in self.md['species'] if d['name'] in placed]

    def _writable(self):
        """The model can be written when every phase holds all of its species (rate constants need the site densities)."""
        if not self.phases:
            return False
        for row in self.md['rows']:
            own = [d['name'] for d in self.md['species'] if d['phase'] == row['name']]
            if sorted(self.members.get(row['name'], [])) != sorted(own):
                return False
        return True

    def _op_write_thermo(self, name, a, fault):
        ctx, kit, md = self.ctx, self.kit, self.md
        order = [i for i in a['order'] if 0 <= i < len(md['reactions'])]
        if not self._writable():
            # a model under construction: what is placed so far can be written as long as nothing written refers to an
            # unplaced species - no reactions, and no lateral interaction of an unplaced species
            placed = set(self._species_handed())
            if not self.phases or not placed or any(i['name_i'] not in placed or i['name_j'] not in placed
                                                    for i in md['interactions']):
                raise Skip()
            if any(not self.members.get(r['name']) for r in md['rows']):
                raise Skip()             # (every phase directive needs at least one species)
            order = []
            ctx.probe('write-with-partial-membership')
        rx = [self.live['reactions'][i] for i in order]
        units_arg, units = self._units_obj(a['units'])
        if a['units'] is None or a['units'] == {}:
            ctx.probe('default-units')
        inter = self.live['interactions'] if md['interactions'] else None     # phases refer to them: always handed over
        phases = [self.phases[r['name']] for r in md['rows']]
        # the modeller points every phase at the reactions that are about to be written (a public attribute)
        for row in md['rows']:
            if row['phase_type'] == 'StoichSolid':
                continue
            sub = [self.live['reactions'][i] for i in order
                   if any(self._phase_of(n) == row['name'] for n, _ in md['reactions'][i]['reactants'] + md['reactions'][i]['products'])]
            self.phases[row['name']].reactions = sub or None
        # transition states must sit on their surface phase before rate constants can be computed
        for d in md['ts']:
            if d['phase'] in self.phases:
                self.live['species'][d['name']].phase = self.phases[d['phase']]
        tw = self._twin()
        key = tuple(order)
        if self.orders_written and key not in self.orders_written:
            ctx.probe('reactions-written-in-two-orders')
        self.orders_written.add(key)
        if a['use_motz_wise']:
            ctx.probe('motz-wise-on')
        what = '%s(%d reactions, units %r)' % (name, len(rx), a['units'])
        handed = set(self._species_handed())
        kw = dict(phases=phases, species=[o for o in self.live['list'] if o.name in handed], reactions=rx or None, lateral_interactions=inter, units=units_arg,
                  T=a['T'], P=a['P'], newline=a['newline'])
        if name == 'write_cti':
            call = lambda fn: self.oio.write_cti(filename=fn, use_motz_wise=a['use_motz_wise'], write_xml=False, **kw)
            judge = lambda text, nl: self._judge_cti(text, a, order, units, tw, inter is not None, what)
        else:
            call = lambda fn: self.oio.write_thermo_yaml(filename=fn, use_motz_wise=a['use_motz_wise'], **kw)
            judge = lambda text, nl: self._judge_thermo_yaml(text, a, order, units, tw, inter is not None, what)
        self.n_writes += 1
        if not a['to_file']:
            ctx.probe('text-path')
            kit.write_text(call, judge, what)
            return 'text'
        ctx.probe('file-path')
        token = {'kind': name}
        if a.get('enum'):
            return kit.enumerate_faults('_enum.txt', call, judge, a['newline'], what, token)
        return kit.write(a['path'], call, judge, a['newline'], what, token, fault, link=bool(a.get('link')), rel=a.get('rel'))

    def _expected_rate(self, tw, i, units, a):
        """(kind, A, beta, Ea) from the twin model's getters, in the requested units."""
        r = self.md['reactions'][i]
        rxn = tw['reactions'][i]
        from pmutt import constants as c
        act_unit = units.act_energy
        if r['Ea'] is not None:
            if r['Ea'] == 0:
                self.ctx.probe('explicit-zero-barrier')
            Ea = c.convert_unit(r['Ea'], initial='kcal/mol', final=act_unit)
        else:
            Ea = None
        if r['is_adsorption']:
            if Ea is None:
                Ea = float(rxn.get_H_act(units=act_unit, T=a['T'], P=a['P']))
            return 'stick', float(rxn.sticking_coeff), rxn.beta, float(Ea)
        if Ea is None:
            Ea = float(rxn.get_G_act(units=act_unit, T=a['T'], P=a['P']))
        A = float(rxn.get_A(T=a['T'], P=a['P'], include_entropy=False, units='%s/%s2' % (units.quantity, units.length)))
        return 'rate', A, rxn.beta, float(Ea)

    def _equation(self, r):
        side = lambda ms: ' + '.join(('%s ' % (int(n) if float(n).is_integer() else n) if n != 1 else '') + nm for nm, n in ms)
        return side(r['reactants']) + ' <=> ' + side(r['products'])

    def _check_ids(self, ids, what, kind):
        seen = set()
        for i in ids:
            if i in (None, '', 'None'):
                raise Violation('unique-ids', '%s: a %s has no id' % (what, kind))
            if i in seen:
                raise Violation('unique-ids', '%s: two %ss carry the id %r (ids in file: %r)' % (what, kind, i, ids))
            seen.add(i)

    def _judge_species_yaml(self, doc, what):
        md = self.md
        got = doc.get('species') or []
        names = [s.get('name') for s in got]
        want = self._species_handed()
        if sorted(names) != sorted(want):
            raise Violation('each-species-once', '%s: species section lists %r, the writer was handed %r' % (what, names, want))
        by = {s['name']: s for s in got}
        for d in md['species']:
            if d['name'] not in want:
                continue
            s = by[d['name']]
            obj = self.live['species'][d['name']]
            comp = {k: float(v) for k, v in (s.get('composition') or {}).items()}
            if comp != {k: float(v) for k, v in d['elements'].items()}:
                raise Violation('species-say-what-the-objects-say', '%s: %s composition %r, object %r' % (what, d['name'], comp, d['elements']))
            if d['n_sites'] is not None and d['kind'] != 'Nasa9':
                sites = s.get('sites')
                if isinstance(sites, list):
                    sites = sites[0] if sites else None
                if sites is None or float(sites) != float(d['n_sites']):
                    raise Violation('species-say-what-the-objects-say', '%s: %s occupies %r sites, file says %r' % (
                        what, d['name'], d['n_sites'], s.get('sites')))
            th = s.get('thermo') or {}
            if d['kind'] == 'Nasa':
                rng_ = [float(x) for x in th.get('temperature-ranges', [])]
                if rng_ != [100.0, 1000.0, 3500.0] or th.get('model') != 'NASA7':
                    raise Violation('species-say-what-the-objects-say', '%s: %s thermo header %r' % (what, d['name'], th.get('model')))
                data = th.get('data') or []
                for seg, co in zip(data, (obj.a_low, obj.a_high)):
                    if len(seg) != 7 or any(not close(x, y, 1e-12) for x, y in zip(seg, co)):
                        raise Violation('species-say-what-the-objects-say', '%s: %s coefficients %r, object %r' % (
                            what, d['name'], seg, list(co)))
                if len(data) != 2:
                    raise Violation('species-say-what-the-objects-say', '%s: %s has %d coefficient sets' % (what, d['name'], len(data)))
            elif d['kind'] == 'Nasa9':
                self.ctx.probe('nasa9-ranges-judged')
                rng_ = [float(x) for x in th.get('temperature-ranges', [])]
                data = th.get('data') or []
                if th.get('model') != 'NASA9' or rng_ != sorted(rng_) or len(data) != len(rng_) - 1:
                    raise Violation('species-say-what-the-objects-say', '%s: %s NASA9 header %r ranges %r, %d coefficient sets' % (
                        what, d['name'], th.get('model'), rng_, len(data)))
                segs = {(float(n.T_low), float(n.T_high)): n for n in obj.nasas}
                for (lo_, hi_), row in zip(zip(rng_, rng_[1:]), data):
                    seg = segs.get((lo_, hi_))
                    if seg is None or len(row) != 9 or any(not close(x, y, 1e-12) for x, y in zip(row, list(seg.a))):
                        raise Violation('species-say-what-the-objects-say', '%s: %s range %r-%r carries %r, the object\'s interval '
                                        'for that range has %r' % (what, d['name'], lo_, hi_, row,
                                                                   list(seg.a) if seg is not None else None))
            elif d['kind'] == 'Shomate':
                data = (th.get('data') or [[]])[0]
                if th.get('model') != 'Shomate' or len(data) != 7 or any(not close(x, y, 1e-12) for x, y in zip(data, list(obj.a)[:7])):
                    raise Violation('species-say-what-the-objects-say', '%s: %s Shomate data %r, object %r' % (
                        what, d['name'], data, list(obj.a)))

    def _judge_phases(self, plist, units, what, get):
        md = self.md
        names = [get(p, 'name') for p in plist]
        want = [r['name'] for r in md['rows']]
        if sorted(names) != sorted(want):
            raise Violation('phases-say-what-the-objects-say', '%s: phases %r, model has %r' % (what, names, want))
        from pmutt import constants as c
        for p in plist:
            nm = get(p, 'name')
            row = [r for r in md['rows'] if r['name'] == nm][0]
            sp = get(p, 'species')
            if list(sp) != self.members[nm]:
                raise Violation('phases-say-what-the-objects-say', '%s: phase %r lists species %r, it holds %r' % (
                    what, nm, list(sp), self.members[nm]))
            el = set(get(p, 'elements'))
            want_el = set(e for d in md['species'] if d['name'] in self.members[nm] for e in d['elements'])
            if el != want_el:
                raise Violation('phases-say-what-the-objects-say', '%s: phase %r elements %r, its species contain %r' % (
                    what, nm, sorted(el), sorted(want_el)))
            if row['phase_type'] == 'InteractingInterface':
                sd = get(p, 'site_density')
                want_sd = row['site_density'] * c.convert_unit(initial='mol', final=units.quantity) / \
                    c.convert_unit(initial='cm2', final='%s2' % units.length)
                if sd is None or not close(sd[0] if isinstance(sd, tuple) else sd, want_sd, 1e-6):
                    raise Violation('phases-say-what-the-objects-say', '%s: phase %r site density %r, model %r mol/cm2 = %r in %s/%s2' % (
                        what, nm, sd, row['site_density'], want_sd, units.quantity, units.length))
                if isinstance(sd, tuple) and sd[1] != '%s/%s^2' % (units.quantity, units.length):
                    raise Violation('phases-say-what-the-objects-say', '%s: phase %r site density unit %r' % (what, nm, sd[1]))

    def _judge_links(self, plist, order, what):
        """What each phase says about the mechanism it takes part in: reactions, lateral interactions and BEP relations
        are 'none' exactly when the phase has none."""
        md = self.md
        for p in plist:
            nm = p.get('name')
            row = [r for r in md['rows'] if r['name'] == nm]
            if not row or row[0]['phase_type'] == 'StoichSolid':
                continue
            mine = [i for i in order if any(self._phase_of(n) == nm for n, _ in md['reactions'][i]['reactants'] +
                                            md['reactions'][i]['products'])]
            want = {'reactions': bool(mine)}
            if row[0]['phase_type'] == 'InteractingInterface':
                want['interactions'] = any(self._phase_of(i['name_i']) == nm for i in md['interactions'])
                want['beps'] = any(md['reactions'][i]['bep'] is not None for i in mine)
            for key, has in want.items():
                said = p.get(key)
                if said is None:
                    continue
                if (str(said) != 'none') != has:
                    raise Violation('phases-say-what-the-objects-say', '%s: phase %r says %s: %r, but it %s' % (
                        what, nm, key, said, 'has some' if has else 'has none'))
            self.ctx.probe('phase-mechanism-links-judged')

    def _judge_reactions(self, entries, order, units, tw, a, what):
        """entries: list of dict(equation, id, kind, A, b, Ea)."""
        md = self.md
        if len(entries) != len(order):
            raise Violation('each-reaction-once', '%s: %d reactions handed over, %d written' % (what, len(order), len(entries)))
        self._check_ids([e['id'] for e in entries], what, 'reaction')
        for e, i in zip(entries, order):
            r = md['reactions'][i]
            if e['equation'].replace(' ', '') != self._equation(r).replace(' ', ''):
                raise Violation('each-reaction-once', '%s: entry %r, expected reaction %r at this position' % (
                    what, e['equation'], self._equation(r)))
            if r['id'] is not None and e['id'] != r['id']:
                raise Violation('unique-ids', '%s: reaction %r has the user id %r, file says %r' % (what, e['equation'], r['id'], e['id']))
            kind, A, beta, Ea = self._expected_rate(tw, i, units, a)
            if e['kind'] != kind:
                raise Violation('rate-parameters', '%s: %r written as %s, model says %s' % (what, e['equation'], e['kind'], kind))
            tol = e.get('tol', 1e-9)
            if not close(e['A'], A, tol) or not close(e['b'], beta, 1e-12) or \
                    not (close(e['Ea'], Ea, tol) or abs(float(e['Ea']) - Ea) < tol * max(1.0, abs(Ea))):
                raise Violation('rate-parameters', '%s: %r written with A=%r b=%r Ea=%r; the model gives A=%r b=%r Ea=%r in %s, %s/%s2 '
                                'at T=%r' % (what, e['equation'], e['A'], e['b'], e['Ea'], A, beta, Ea, units.act_energy,
                                             units.quantity, units.length, a['T']))

    def _judge_interactions(self, entries, units, what):
        md = self.md
        from pmutt import constants as c
        if len(entries) != len(md['interactions']):
            raise Violation('interactions-say-what-the-objects-say', '%s: %d interactions in the model, %d written' % (
                what, len(md['interactions']), len(entries)))
        self._check_ids([e['id'] for e in entries], what, 'lateral interaction')
        for e, d in zip(entries, md['interactions']):
            if list(e['species']) != [d['name_i'], d['name_j']]:
                raise Violation('interactions-say-what-the-objects-say', '%s: interaction between %r, object says %r' % (
                    what, e['species'], [d['name_i'], d['name_j']]))
            if d['name'] is not None and e['id'] != d['name']:
                raise Violation('unique-ids', '%s: interaction named %r written with id %r' % (what, d['name'], e['id']))
            if [float(x) for x in e['thresholds']] != [float(x) for x in d['intervals']]:
                raise Violation('interactions-say-what-the-objects-say', '%s: thresholds %r, object %r' % (what, e['thresholds'], d['intervals']))
            per_mol = [c.convert_unit(s, initial='kcal/mol', final='%s/mol' % units.energy) for s in d['slopes']]
            want = [v / c.Na for v in per_mol] if units.quantity == 'molec' else per_mol
            if len(e['strengths']) != len(want) or any(not close(x, y, 1e-9) for x, y in zip(e['strengths'], want)):
                raise Violation('interactions-say-what-the-objects-say', '%s: strengths %r, object %r kcal/mol = %r %s/%s' % (
                    what, e['strengths'], d['slopes'], want, units.energy, units.quantity))

    @staticmethod
    def _expand_ranges(items):
        """['r_0003 to r_0005', 'r_0009'] -> ['r_0003', 'r_0004', 'r_0005', 'r_0009'] (independent of pmutt.cantera)."""
        out = []
        if items is None:
            return out
        if isinstance(items, str):
            items = [items]
        for it in items:
            it = str(it).strip()
            if ' to ' in it:
                lo, hi = [x.strip() for x in it.split(' to ')]
                pre, a = lo.rsplit('_', 1)
                pre2, b = hi.rsplit('_', 1)
                if pre != pre2:
                    raise ValueError(it)
                for k in range(int(a), int(b) + 1):
                    out.append('%s_%0*d' % (pre, len(a), k))
            elif it:
                out.append(it)
        return out

    def _judge_beps(self, entries, order, ids_by_pos, units, what):
        """entries: list of dict(id, slope, intercept, direction, cleavage [ids], synthesis [ids])."""
        md = self.md
        from pmutt import constants as c
        used = []
        for i in order:
            b = md['reactions'][i]['bep']
            if b is not None and b not in used:
                used.append(b)
        if len(entries) != len(used):
            raise Violation('beps-say-what-the-objects-say', '%s: %d BEP relationships are used by the written reactions, %d are '
                            'written' % (what, len(used), len(entries)))
        self._check_ids([e['id'] for e in entries], what, 'BEP')
        if used:
            self.ctx.probe('bep-section-judged')
        for e, b in zip(entries, used):
            d = md['beps'][b]
            if d['name'] is not None and e['id'] != d['name']:
                raise Violation('beps-say-what-the-objects-say', '%s: BEP named %r written with id %r' % (what, d['name'], e['id']))
            want_int = c.convert_unit(d['intercept'], 'kcal/mol', units.act_energy)
            if not close(e['slope'], d['slope'], 1e-12) or not close(e['intercept'], want_int, 1e-9) or e['direction'] != d['direction']:
                raise Violation('beps-say-what-the-objects-say', '%s: BEP %r written with slope %r intercept %r direction %r; object '
                                'has slope %r intercept %r kcal/mol = %r %s direction %r' % (
                                    what, e['id'], e['slope'], e['intercept'], e['direction'], d['slope'], d['intercept'], want_int,
                                    units.act_energy, d['direction']))
            members = sorted(ids_by_pos[pos] for pos, i in enumerate(order) if md['reactions'][i]['bep'] == b)
            key = 'cleavage' if d['direction'] == 'cleavage' else 'synthesis'
            other = 'synthesis' if key == 'cleavage' else 'cleavage'
            if sorted(e[key]) != members or e[other]:
                raise Violation('beps-say-what-the-objects-say', '%s: BEP %r lists %s reactions %r and %s reactions %r; its members are '
                                '%r' % (what, e['id'], key, e[key], other, e[other], members))

    @staticmethod
    def _val_unit(s):
        m = re.match(r'^\s*([-+0-9.eE]+)\s*(\S.*)?$', str(s))
        if not m:
            raise ValueError(s)
        return float(m.group(1)), (m.group(2) or '').strip()

    def _judge_thermo_yaml(self, text, a, order, units, tw, with_inter, what):
        first = text.split('\n', 1)[0]
        self.kit.check_timestamp(first, what, '# ')
        try:
            doc = self.yaml.safe_load(text)
        except Exception as e:
            raise Violation('yaml-loads', '%s: the thermo YAML does not load: %s' % (what, str(e)[:200]))
        self.ctx.probe('yaml-loaded')
        if not isinstance(doc, dict):
            raise Violation('yaml-loads', '%s: top level is %s' % (what, type(doc).__name__))
        u = doc.get('units') or {}
        want_u = {'mass': units.mass, 'length': units.length, 'time': units.time, 'quantity': units.quantity,
                  'energy': units.energy, 'activation-energy': units.act_energy, 'pressure': units.pressure}
        if u != want_u:
            raise Violation('units-say-what-the-objects-say', '%s: units %r, requested %r' % (what, u, want_u))
        self._judge_species_yaml(doc, what)

        def get(p, k):
            if k == 'site_density':
                v = p.get('site-density')
                if v is None:
                    return None
                val, unit = self._val_unit(v)
                return (val, unit)
            return p.get(k)
        self._judge_phases(doc.get('phases') or [], units, what, get)
        self._judge_links(doc.get('phases') or [], order, what)
        entries = []
        for r in doc.get('reactions') or []:
            if 'sticking-coefficient' in r:
                k, rc = 'stick', r['sticking-coefficient']
            else:
                k, rc = 'rate', r.get('rate-constant') or {}
            try:
                Ea, eu = self._val_unit(rc.get('Ea'))
            except ValueError:
                raise Violation('rate-parameters', '%s: activation energy entry %r' % (what, rc.get('Ea')))
            if eu != units.act_energy:
                raise Violation('rate-parameters', '%s: activation energy unit %r, requested %r' % (what, eu, units.act_energy))
            entries.append({'equation': r.get('equation', ''), 'id': r.get('id'), 'kind': k, 'A': rc.get('A'), 'b': rc.get('b'), 'Ea': Ea})
            if k == 'stick':
                if bool(r.get('Motz-Wise')) != bool(a['use_motz_wise']) and r.get('Motz-Wise') != a['use_motz_wise']:
                    raise Violation('rate-parameters', '%s: Motz-Wise %r written for %r, requested %r' % (
                        what, r.get('Motz-Wise'), r.get('equation'), a['use_motz_wise']))
        self._judge_reactions(entries, order, units, tw, a, what)
        bents = []
        for bd in doc.get('beps') or []:
            try:
                iv, iu = self._val_unit(bd.get('intercept'))
                bents.append({'id': bd.get('id'), 'slope': bd.get('slope'), 'intercept': iv, 'direction': bd.get('direction'),
                              'cleavage': self._expand_ranges(bd.get('cleavage-reactions')),
                              'synthesis': self._expand_ranges(bd.get('synthesis-reactions'))})
            except ValueError:
                raise Violation('beps-say-what-the-objects-say', '%s: BEP entry %r cannot be read' % (what, bd))
            if iu != units.act_energy:
                raise Violation('beps-say-what-the-objects-say', '%s: BEP intercept unit %r, requested %r' % (what, iu, units.act_energy))
        self._judge_beps(bents, order, [e['id'] for e in entries], units, what)
        if with_inter:
            ents = []
            for i in doc.get('interactions') or []:
                st = []
                for s in i.get('strength') or []:
                    v, un = self._val_unit(s)
                    st.append(v)
                ents.append({'species': i.get('species'), 'id': i.get('id'), 'thresholds': i.get('coverage-threshold'), 'strengths': st})
            self._judge_interactions(ents, units, what)

    def _judge_cti(self, text, a, order, units, tw, with_inter, what):
        first = text.split('\n', 1)[0]
        self.kit.check_timestamp(first, what, '# ')
        cw = self.cw
        buf = io.StringIO()
        try:
            with contextlib.redirect_stdout(buf), contextlib.redirect_stderr(buf):
                cw.convert(text=text)
        except SystemExit as e:
            raise Violation('cti-valid', '%s: the CTI text is not a valid sequence of CTI directives: %s' % (
                what, buf.getvalue().strip().replace('\n', ' | ')[-300:]))
        except Exception as e:
            raise Violation('cti-valid', '%s: the repo\'s CTI interpreter rejects the text: %s: %s' % (
                what, type(e).__name__, str(e)[:200]))
        self.ctx.probe('cti-executed')
        md = self.md
        names = [s._name for s in cw._species]
        want = self._species_handed()
        if sorted(names) != sorted(want):
            raise Violation('each-species-once', '%s: species directives %r, the writer was handed %r' % (what, names, want))
        for s in cw._species:
            d = [x for x in md['species'] if x['name'] == s._name][0]
            obj = self.live['species'][d['name']]
            if {k: float(v) for k, v in s._atoms.items()} != {k: float(v) for k, v in d['elements'].items()}:
                raise Violation('species-say-what-the-objects-say', '%s: %s atoms %r, object %r' % (what, d['name'], s._atoms, d['elements']))
            if d['n_sites'] is not None and float(s._size) != float(d['n_sites']):
                raise Violation('species-say-what-the-objects-say', '%s: %s size %r, object occupies %r sites' % (
                    what, d['name'], s._size, d['n_sites']))
            if d['kind'] == 'Nasa':
                th = s._thermo
                if len(th) != 2:
                    raise Violation('species-say-what-the-objects-say', '%s: %s has %d NASA ranges' % (what, d['name'], len(th)))
                for seg, co, tr in zip(th, (obj.a_low, obj.a_high), ((100.0, 1000.0), (1000.0, 3500.0))):
                    if [float(x) for x in seg._t] != list(tr) or any(('%.8E' % x) != ('%.8E' % y) for x, y in zip(seg._coeffs, co)):
                        raise Violation('species-say-what-the-objects-say', '%s: %s NASA range %r coefficients %r, object %r' % (
                            what, d['name'], seg._t, seg._coeffs, list(co)))
            elif d['kind'] == 'Nasa9':
                th = s._thermo if isinstance(s._thermo, (list, tuple)) else [s._thermo]
                segs = {(float(n.T_low), float(n.T_high)): n for n in obj.nasas}
                if len(th) != len(segs):
                    raise Violation('species-say-what-the-objects-say', '%s: %s has %d NASA9 ranges, the object %d' % (
                        what, d['name'], len(th), len(segs)))
                for seg in th:
                    key = tuple(float(x) for x in seg._t)
                    o_ = segs.get(key)
                    if o_ is None or any(('%.8E' % x) != ('%.8E' % y) for x, y in zip(seg._coeffs, list(o_.a))):
                        raise Violation('species-say-what-the-objects-say', '%s: %s NASA9 range %r coefficients %r, object %r' % (
                            what, d['name'], seg._t, seg._coeffs, list(o_.a) if o_ is not None else None))

        def get(p, k):
            if k == 'name':
                return p._name
            if k == 'species':
                return [x for grp in p._spmap for x in (grp if isinstance(grp, (list, tuple)) else [grp])] \
                    if not hasattr(p, '_species_names') else p._species_names
            if k == 'elements':
                return p._el.split() if isinstance(p._el, str) else list(p._el)
            if k == 'site_density':
                return getattr(p, '_sitedens', None)
            return None
        plist = list(cw._phases)
        for p in plist:
            # species names as given to the directive
            sp = getattr(p, '_sp', None)
            names_ = []
            for entry in (sp if isinstance(sp, (list, tuple)) else [sp]):
                if isinstance(entry, (list, tuple)):
                    names_.extend(str(entry[1]).split())
                elif entry is not None:
                    names_.extend(str(entry).split())
            p._species_names = names_
        self._judge_phases(plist, units, what, get)
        entries = []
        for r in cw._reactions:
            kf = r._kf[0] if isinstance(r._kf, (list, tuple)) and len(r._kf) == 1 else r._kf
            if isinstance(kf, cw.stick):
                k, A, b, Ea = 'stick', kf._c[0], kf._c[1], kf._c[2]
            else:
                k, A, b, Ea = 'rate', kf[0], kf[1], kf[2]
            entries.append({'equation': r._e, 'id': r._id, 'kind': k, 'A': A, 'b': b, 'Ea': Ea, 'tol': 6e-6})
        self._judge_reactions(entries, order, units, tw, a, what)
        # the reactions a phase lists (ids, with "a to b" ranges) are exactly those that involve its species
        md = self.md
        for p_ in plist:
            said = getattr(p_, '_rxns', None)
            nm = getattr(p_, '_name', None)
            if said is None or str(said) == 'none' or said == [] or nm is None:
                continue
            try:
                listed = self._expand_ranges(said)
            except ValueError:
                raise Violation('phases-say-what-the-objects-say', '%s: phase %r lists reactions %r: a range across two id '
                                'prefixes' % (what, nm, said))
            if any(x_ in ('all', 'declared-species') for x_ in listed):
                continue
            mine = [e_['id'] for e_, i in zip(entries, order)
                    if any(self._phase_of(n_) == nm for n_, _ in md['reactions'][i]['reactants'] + md['reactions'][i]['products'])]
            if sorted(listed) != sorted(mine):
                raise Violation('phases-say-what-the-objects-say', '%s: phase %r lists reactions %r (%r), the reactions that involve its '
                                'species are %r' % (what, nm, said, sorted(listed), sorted(mine)))
            self.ctx.probe('phase-reaction-ids-judged')
        try:
            bents = [{'id': b._id, 'slope': b._alpha, 'intercept': b._beta, 'direction': b._direction,
                      'cleavage': self._expand_ranges(b._clv_rxns), 'synthesis': self._expand_ranges(b._syn_rxns)}
                     for b in cw._beps]
        except (ValueError, AttributeError) as e:
            raise Violation('beps-say-what-the-objects-say', '%s: BEP directives cannot be read: %s' % (what, e))
        self._judge_beps(bents, order, [e['id'] for e in entries], units, what)
        if with_inter:
            ents = [{'species': i._species.split() if isinstance(i._species, str) else list(i._species), 'id': i._id,
                     'thresholds': list(i._coverage_thresholds), 'strengths': list(i._strengths)} for i in cw._interactions]
            self._judge_interactions(ents, units, what)
        mw = cw._motz_wise
        if order and bool(mw) != bool(a['use_motz_wise']):
            raise Violation('rate-parameters', '%s: Motz-Wise option %r in the CTI, requested %r' % (what, mw, a['use_motz_wise']))

    # ------------------------------------------------------------------ reactor YAML
    def _materialise(self, v):
        np = self.np
        if isinstance(v, dict) and 'np' in v:
            self.ctx.probe('numpy-values')
            return getattr(np, v['np'])(v['v'])
        if isinstance(v, str) and re.match(r'^[-0-9.]+ \S', v):
            self.ctx.probe('string-values-with-units')
        return v

    def _op_write_reactor(self, a, fault):
        ctx, kit, md = self.ctx, self.kit, self.md
        ctx.probe('reactor-yaml')
        o = {k: self._materialise(v) for k, v in a['opts'].items()}
        units_arg, units = self._units_obj(a['units'])
        if a['units'] is None:
            ctx.probe('units-omitted')
        phases = None
        if a.get('with_phases') and self.phases:
            phases = [self.phases[r['name']] for r in md['rows']]
        if a.get('reuse_dicts'):
            ctx.probe('reactor-reused-dict')
            store = self.__dict__.setdefault('_reactor_dicts', {'reactor': {}, 'inlet_gas': {}, 'solver': {}, 'simulation': {},
                                                                 'multi_input': {}})
        else:
            store = {}
        what = 'write_yaml(%s)' % sorted(o)

        def call(fn):
            return self.oio.write_yaml(filename=fn, phases=phases, units=units_arg, newline=a['newline'], **dict(o, **store))

        def judge(text, nl):
            self._judge_reactor(text, o, a, units, phases, dict((k, dict(v)) for k, v in store.items()) if False else None, what)
        # what the documented pass-through containers hold at call time decides what "supplied" means
        self._store_at_call = {k: dict(v) for k, v in store.items()}
        if not a['to_file']:
            ctx.probe('text-path')
            kit.write_text(call, judge, what)
            return 'text'
        ctx.probe('file-path')
        return kit.write(a['path'], call, judge, a['newline'], what, {'kind': 'write_yaml'}, fault, link=bool(a.get('link')), rel=a.get('rel'))

    LABELS = {'reactor_type': ('reactor', 'type', None), 'temperature_mode': ('reactor', 'temperature_mode', None),
              'pressure_mode': ('reactor', 'pressure_mode', None), 'nodes': ('reactor', 'nodes', None),
              'V': ('reactor', 'volume', '{length}3'), 'A': ('reactor', 'area', '{length}2'), 'L': ('reactor', 'length', '{length}'),
              'cat_abyv': ('reactor', 'cat_abyv', '/{length}'), 'T': ('reactor', 'temperature', None),
              'P': ('reactor', 'pressure', '{pressure}'), 'flow_rate': ('inlet_gas', 'flow_rate', '{length}3/{time}'),
              'residence_time': ('inlet_gas', 'residence_time', '{time}'), 'mass_flow_rate': ('inlet_gas', 'mass_flow_rate', '{mass}/{time}'),
              'end_time': ('simulation', 'end_time', '{time}'), 'transient': ('simulation', 'transient', None),
              'stepping': ('simulation', 'stepping', None), 'init_step': ('simulation', 'init_step', None),
              'step_size': ('simulation', 'step_size', None), 'output_format': ('simulation', 'output_format', None),
              'atol': ('simulation.solver', 'atol', None), 'rtol': ('simulation.solver', 'rtol', None),
              'full_SA': ('simulation.sensitivity', 'full', None), 'reactions_SA': ('simulation.sensitivity', 'reactions', None),
              'species_SA': ('simulation.sensitivity', 'species', None),
              'multi_T': ('simulation.multi_input', 'temperature', None), 'multi_P': ('simulation.multi_input', 'pressure', '{pressure}'),
              'multi_flow_rate': ('simulation.multi_input', 'flow_rate', '{length}3/{time}')}

    def _judge_reactor(self, text, o, a, units, phases, _unused, what):
        first = text.split('\n', 1)[0]
        self.kit.check_timestamp(first, what, '# ')
        try:
            doc = self.yaml.safe_load(text) or {}
        except Exception as e:
            raise Violation('yaml-loads', '%s: the reactor YAML does not load: %s' % (what, str(e)[:200]))
        store = self._store_at_call
        if any(store.get(k) for k in store):
            # Re-used pass-through containers already hold entries (and alias each other); the statement does not say how
            # they combine with new arguments beyond "an existing entry wins", so only well-formedness is judged here.
            self.ctx.probe('reactor-reused-dict-nonempty')
            return
        expected = {}

        def put(section, label, val):
            node = expected
            for part in section.split('.'):
                node = node.setdefault(part, {})
            node.setdefault(label, val)          # an entry already present wins (documented pass-through containers)
        # entries already present in re-used containers
        for sec, key in (('reactor', 'reactor'), ('inlet_gas', 'inlet_gas'), ('simulation', 'simulation')):
            for k, v in store.get(key, {}).items():
                if k in ('solver', 'multi_input', 'sensitivity') and isinstance(v, dict):
                    for kk, vv in v.items():
                        put(sec + '.' + k, kk, ('raw', vv))
                else:
                    put(sec, k, ('raw', v))
        for k, v in store.get('solver', {}).items():
            put('simulation.solver', k, ('raw', v))
        for k, v in store.get('multi_input', {}).items():
            put('simulation.multi_input', k, ('raw', v))
        fmt = {'length': units.length, 'time': units.time, 'pressure': units.pressure, 'mass': units.mass}
        no_units = a['units'] is None       # no unit system given: plain (SI) numbers, nothing appended
        U = (lambda t: None) if no_units else (lambda t: t.format(**fmt))
        for k, v in o.items():
            sec, label, unit = self.LABELS[k]
            if k == 'T' or (k == 'multi_T' and 'T' not in o):
                pass
            put(sec, label, ('val', v, unit.format(**fmt) if (unit and not no_units) else None))
        if 'T' not in o and 'multi_T' in o:
            put('reactor', 'temperature', ('val', o['multi_T'][0], None))
        if 'P' not in o and 'multi_P' in o:
            put('reactor', 'pressure', ('val', o['multi_P'][0], U('{pressure}')))
        if 'flow_rate' not in o and 'multi_flow_rate' in o:
            put('inlet_gas', 'flow_rate', ('val', o['multi_flow_rate'][0], U('{length}3/{time}')))

        def norm(x):
            if isinstance(x, str):
                return x.strip().strip('"')
            return x

        def match(got, exp, path):
            if exp[0] == 'raw':
                return True        # pass-through content is not judged beyond presence
            _, v, unit = exp
            if isinstance(v, list):
                if not isinstance(got, list) or len(got) != len(v):
                    return False
                return all(match(g, ('val', x, unit), path) for g, x in zip(got, v))
            if isinstance(v, bool) or isinstance(got, bool):
                return got == v
            if isinstance(v, str):
                return norm(got) == v
            try:
                fv = float(v)
            except (TypeError, ValueError):
                return norm(got) == v
            if unit is None:
                try:
                    return close(float(norm(got)), fv, 1e-12)
                except (TypeError, ValueError):
                    return False
            try:
                gv, gu = self._val_unit(norm(got))
            except ValueError:
                return False
            return close(gv, fv, 1e-12) and gu.replace('^', '') == unit

        def walk(exp, got, path):
            if not isinstance(got, dict):
                raise Violation('reactor-every-supplied-value', '%s: section %s is %r' % (what, path, got))
            for k, e in exp.items():
                if isinstance(e, dict):
                    if k not in got:
                        raise Violation('reactor-every-supplied-value', '%s: section %s.%s with supplied values %r is missing' % (
                            what, path, k, sorted(e)))
                    walk(e, got[k], path + '.' + k)
                else:
                    if k not in got:
                        raise Violation('reactor-every-supplied-value', '%s: the supplied value %s.%s = %r does not appear in the file' % (
                            what, path, k, e[1]))
                    if not match(got[k], e, path):
                        raise Violation('reactor-every-supplied-value', '%s: %s.%s supplied as %r (unit %r), file says %r' % (
                            what, path, k, e[1], e[2] if len(e) > 2 else None, got[k]))
            extra = [k for k in got if k not in exp]
            if extra:
                raise Violation('reactor-nothing-else', '%s: %s carries %r which nobody supplied (supplied: %r)' % (
                    what, path, extra, sorted(exp)))
        top_expected = dict(expected)
        got_top = {k: v for k, v in doc.items() if k != 'phases'}
        walk(top_expected, got_top, 'file')
        if phases is not None:
            ph = doc.get('phases')
            if not isinstance(ph, dict):
                raise Violation('reactor-every-supplied-value', '%s: phases section is %r' % (what, ph))
            names = []
            for k, v in ph.items():
                for entry in (v if isinstance(v, list) else [v]):
                    names.append((k, norm(entry.get('name'))))
            want = sorted(({'IdealGas': 'gas', 'StoichSolid': 'bulk', 'InteractingInterface': 'surfaces'}[r['phase_type']], r['name'])
                          for r in self.md['rows'])
            if sorted(names) != want:
                raise Violation('reactor-every-supplied-value', '%s: phases section names %r, model has %r' % (what, sorted(names), want))
            for k, v in ph.items():
                for entry in (v if isinstance(v, list) else [v]):
                    row = [r_ for r_ in self.md['rows'] if r_['name'] == norm(entry.get('name'))][0]
                    ist = row.get('initial_state')
                    got_is = entry.get('initial_state')
                    if ist is None:
                        if got_is is not None:
                            raise Violation('reactor-nothing-else', '%s: phase %s has an initial state %r nobody supplied' % (
                                what, row['name'], got_is))
                        continue
                    self.ctx.probe('reactor-initial-state')
                    try:
                        parsed = {}
                        for part in str(got_is).strip().strip('"').split(','):
                            nm_, val_ = part.rsplit(':', 1)
                            parsed[nm_.strip()] = float(val_)
                    except (ValueError, AttributeError):
                        raise Violation('reactor-every-supplied-value', '%s: initial state of phase %s is %r' % (what, row['name'], got_is))
                    if parsed != {n_: float(v_) for n_, v_ in ist.items()}:
                        raise Violation('reactor-every-supplied-value', '%s: initial state of phase %s written as %r, supplied %r' % (
                            what, row['name'], parsed, ist))
        elif 'phases' in doc:
            raise Violation('reactor-nothing-else', '%s: a phases section appears although no phases were supplied' % what)

    def abstract_state(self):
        st = []
        for n in sorted(self.phases):
            m = len(self.members[n])
            st.append((self.pinfo[n]['type'], 0 if m == 0 else 1 if m < 3 else 2, self.pinfo[n]['built']))
        auto = sum(1 for r in (self.md or {}).get('reactions', []) if r['id'] is None)
        return [st, min(auto, 5), min(self.n_writes, 5)]

    def simplify(self, op):
        a = op['args']
        if op['op'] == 'mkmodel':
            m = a['model']
            for key in ('reactions', 'interactions'):
                if len(m[key]) > 0:
                    for i in range(len(m[key])):
                        yield {**op, 'args': {**a, 'model': {**m, key: m[key][:i] + m[key][i + 1:]}}}
        elif op['op'] in ('write_cti', 'write_thermo_yaml'):
            if a.get('enum'):
                yield {**op, 'args': {**a, 'enum': False}}
            if a['units'] not in (None, {}):
                yield {**op, 'args': {**a, 'units': {'length': 'cm', 'quantity': 'mol', 'act_energy': 'kcal/mol', 'energy': 'kcal',
                                                     'mass': 'g', 'pressure': 'bar', 'time': 's'}}}
            if len(a['order']) > 1:
                for i in range(len(a['order'])):
                    yield {**op, 'args': {**a, 'order': a['order'][:i] + a['order'][i + 1:]}}
            if a['newline'] != '\n':
                yield {**op, 'args': {**a, 'newline': '\n'}}
        elif op['op'] == 'write_yaml':
            for k in list(a['opts']):
                yield {**op, 'args': {**a, 'opts': {x: v for x, v in a['opts'].items() if x != k}}}
            if a.get('reuse_dicts'):
                yield {**op, 'args': {**a, 'reuse_dicts': False}}
            if a.get('with_phases'):
                yield {**op, 'args': {**a, 'with_phases': False}}
