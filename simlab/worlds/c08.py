"""World C08: many reactions sharing species objects and caller-owned condition dictionaries."""
import copy
import math

from ..core import World, Violation, Skip
from ..filekit import side_stream

H2O_LOW = [4.19864056E+00, -2.03643410E-03, 6.52040211E-06, -5.48797062E-09, 1.77197817E-12, -3.02937267E+04,
           -8.49032208E-01]
H2O_HIGH = [3.03399249E+00, 2.17691804E-03, -1.64072518E-07, -9.70419870E-11, 1.68200992E-14, -3.00042971E+04,
            4.96677010E+00]
SHO_A = [30.09200, 6.832514, 6.793435, -2.534480, 0.082139, -250.8810, 223.3967, -241.8264]
NAME_SETS = {
    'plain': ['A', 'B', 'C', 'D', 'E', 'F', 'G', 'H2O', 'CO*', 'TS1', 'TS2'],
    # names that differ only in case (cobalt and carbon monoxide), and names that end in / start with one another
    'case': ['CO', 'Co', 'co', 'H2O', 'h2o', 'OH', 'Oh', 'NO', 'No', 'TS', 'ts'],
    'affix': ['O', 'CO', 'HCO', 'HCOO', 'H', 'OH', 'COOH', 'O2', 'CO2', 'H2', 'OH2'],
    # a gas species and its adsorbed form carrying the usual phase tags
    'tagged': ['H2O', 'H2O(S)', 'CO', 'CO(S)', 'H2', 'H2(S)', 'CO*', 'O2', 'O2*', 'TS1', 'TS1(S)'],
}
BEP_DESCRIPTORS = ['delta_H', 'rev_delta_H', 'reactants_H', 'products_H']
QUANT = ['CvoR', 'CpoR', 'UoRT', 'HoRT', 'SoR', 'FoRT', 'GoRT', 'EoRT', 'q']
UNCLAMPED = ['CvoR', 'CpoR', 'UoRT', 'SoR', 'FoRT', 'EoRT', 'q']     # not overridden by ChemkinReaction / SurfaceReaction


class WorldC08(World):
    PROP = 'C08'
    RUNS = {'quick': 4000, 'thorough': 80000}
    WALL = {'quick': 50, 'thorough': 560}
    STATE_CHANGING = ('mkspecies', 'mkrxn', 'mkcond', 'editcond', 'editspecies', 'rescale', 'badcall', 'mkbep')
    STATE_RULE = 'number of species / reactions / condition dictionaries, how many reactions share a species, blocks per dictionary'
    PROBES = ('species-in-three-reactions', 'condition-dict-reused', 'block-for-one-species', 'block-for-absent-species',
              'fractional-stoichiometry', 'two-transition-state-species', 'species-on-both-sides', 'edit-then-evaluate',
              'rev-and-act', 'Keq-product', 'chemkin-unclamped', 'surface-unclamped', 'mixed-model-classes', 'q-ratio',
              'from-string', 'coefficients-as-numpy-array', 'bep-transition-state', 'bep-shared-by-two-reactions', 'flags-as-numpy-bool', 'flags-as-int',
              'Keq-of-activation', 'arrhenius-Ea-explicit-molecularity', 'two-reactions-from-one-string',
              'coefficients-edited-in-place', 'rejected-call-then-valid-calls', 'dimensional-getters',
              'electronic-energy-with-ZPE', 'q-of-activation', 'species-with-constant-mode')
    REAL = ('pmutt.reaction.Reaction / ChemkinReaction / pmutt.omkm.reaction.SurfaceReaction getters',
            'pmutt._get_specie_kwargs / _force_pass_arguments', 'StatMech, Nasa, Shomate species')
    SIMULATED = ('1-3 clients evaluating reactions over shared species and shared, re-used condition dictionaries',)
    ASSUMPTIONS = ('each species\' own getter defines its contribution (C01/C02 judge those); the oracle recombines them with an '
                   'independent stoichiometric sum and an independent keyword router',)
    MAX_STEPS = 70

    def gen_swarm(self, rng, tier):
        return {'n_clients': rng.randint(1, 3), 'n_species': rng.randint(3, 9), 'n_rxn': rng.randint(1, 8),
                'n_cond': rng.randint(1, 3), 'kinds': rng.choice([['StatMech'], ['Nasa'], ['StatMech', 'Nasa', 'Shomate'],
                                                                  ['StatMech', 'Nasa']]),
                'w_eval': rng.choice([3, 5]), 'w_edit': rng.choice([0, 1, 2]),
                'rxn_classes': rng.choice([['Reaction'], ['Reaction', 'ChemkinReaction', 'SurfaceReaction']]),
                'names': rng.choice(['plain', 'tagged', 'case', 'affix']), 'n_bep': rng.choice([0, 0, 1, 2]),
                'w_hist': rng.choice([0, 0, 1, 2])}

    def n_steps(self, rng, swarm):
        return swarm['n_species'] + swarm['n_rxn'] + swarm['n_cond'] + rng.randint(5, 30)

    def setup(self, swarm):
        import numpy as np
        import pmutt.statmech as sm
        import pmutt.statmech.trans as trans
        import pmutt.statmech.vib as vib
        import pmutt.statmech.rot as rot
        import pmutt.statmech.elec as elec
        import pmutt.empirical.nasa as nasa
        import pmutt.empirical.shomate as sho
        import pmutt.reaction as rx
        import pmutt.omkm.reaction as orx
        self.np, self.sm, self.trans, self.vib, self.rot, self.elec = np, sm, trans, vib, rot, elec
        self.nasa, self.sho, self.rx, self.orx = nasa, sho, rx, orx
        self.sp = {}       # id -> species object
        self.spk = {}      # id -> kind
        self.spc = {}      # id -> True if the species carries a user-set constant mode
        self.rxn = {}      # id -> reaction
        self.rxm = {}      # id -> dict(reactants [(sid, nu)], products, ts, cls)
        self.cond = {}     # id -> caller-owned dict
        self.cond_uses = {}
        self.edited = False
        import pmutt.reaction.bep as bepmod
        from pmutt import constants as pc
        self.bepmod = bepmod
        self.R_kcal = pc.R('kcal/mol/K')
        self.bep = {}      # id -> BEP object (may be the transition state of several reactions)
        self.bepm = {}     # id -> dict(slope, intercept, descriptor)

    # ------------------------------------------------------------------ gen
    def gen_op(self, rng):
        side = side_stream(rng)
        op = self._gen_op0(rng)
        if op is not None and op.get('op') == 'mkrxn' and not op['args'].get('from_string') and side.random() < 0.3:
            # coefficients handed over as numpy arrays (the result of a linear-algebra step) instead of lists
            op['args']['stoich_as'] = 'array'
        return op

    def _gen_op0(self, rng):
        sw = self.ctx.swarm
        c = rng.randrange(sw['n_clients'])
        if len(self.sp) < sw['n_species']:
            kind = rng.choice(sw['kinds'])
            return {'c': c, 'op': 'mkspecies', 'args': {
                'id': len(self.sp), 'kind': kind, 'name': NAME_SETS[sw.get('names', 'plain')][len(self.sp)], 'E': round(rng.uniform(-30, -1), 4),
                'wn': [round(rng.uniform(100, 4000), 1) for _ in range(rng.randint(1, 4))],
                'mw': round(rng.uniform(2, 200), 2), 'rot': [round(rng.uniform(0.05, 50), 3) for _ in range(3)],
                'scale': round(rng.uniform(0.7, 1.3), 3), 'phase': rng.choice(['G', 'S']),
                # a user-set constant contribution whose G, H and S are independent numbers (eV, eV/K)
                'const': ({'G': round(rng.uniform(-1, 1), 4), 'H': round(rng.uniform(-1, 1), 4),
                           'S': round(rng.uniform(0, 2e-3), 7), 'U': round(rng.uniform(-1, 1), 4),
                           'F': round(rng.uniform(-1, 1), 4)} if kind == 'StatMech' and rng.random() < 0.2 else None)}}
        if len(self.bep) < sw.get('n_bep', 0) and len(self.sp) >= sw['n_species']:
            return {'c': c, 'op': 'mkbep', 'args': {'id': len(self.bep), 'slope': round(rng.uniform(0, 1), 3),
                                                    'intercept': round(rng.uniform(0, 40), 2),
                                                    'descriptor': rng.choice(BEP_DESCRIPTORS)}}
        twins = [r_ for r_ in sorted(self.rxn) if self.rxm[r_].get('string')]
        if twins and sw.get('w_hist') and len(self.rxn) < sw['n_rxn'] + 2 and rng.random() < 0.15:
            # a second reaction object made from the very same reaction string
            m0 = self.rxm[rng.choice(twins)]
            return {'c': c, 'op': 'mkrxn', 'args': {'id': len(self.rxn), 'cls': 'Reaction',
                                                    'reactants': [list(x) for x in m0['reactants0']],
                                                    'products': [list(x) for x in m0['products0']],
                                                    'ts': [list(x) for x in m0['ts0']], 'from_string': True}}
        if len(self.rxn) < sw['n_rxn'] and (not self.rxn or rng.random() < 0.5):
            ids = sorted(self.sp)
            if self.bep and rng.random() < 0.6:
                # a BEP relation stands in for the transition state; one relation serves a whole family of reactions
                ids2 = ids
                nr, npd = rng.randint(1, min(3, len(ids2))), rng.randint(1, min(3, len(ids2)))
                st = lambda: rng.choice([1, 1, 1, 2, 3, 0.5])
                return {'c': c, 'op': 'mkrxn', 'args': {
                    'id': len(self.rxn), 'cls': 'Reaction', 'reactants': [[i, st()] for i in rng.sample(ids2, nr)],
                    'products': [[i, st()] for i in rng.sample(ids2, npd)], 'ts': [], 'bep': rng.choice(sorted(self.bep)),
                    'from_string': False}}
            nr, npd = rng.randint(1, min(4, len(ids))), rng.randint(1, min(4, len(ids)))
            st = lambda: rng.choice([1, 1, 1, 2, 3, 4, 0.5, 0.25, 1.5])
            cls = rng.choice(sw['rxn_classes'])
            if cls != 'Reaction':
                # Chemkin/Surface reactions look at .phase: only empirical species
                ids = [i for i in ids if self.spk[i] != 'StatMech'] or ids
                if any(self.spk[i] == 'StatMech' for i in ids):
                    cls = 'Reaction'
                nr, npd = min(nr, len(ids)), min(npd, len(ids))
            n_ts = rng.choice([0, 0, 1, 1, 2])
            return {'c': c, 'op': 'mkrxn', 'args': {
                'id': len(self.rxn), 'cls': cls,
                'reactants': [[i, st()] for i in rng.sample(ids, nr)],
                'products': [[i, st()] for i in rng.sample(ids, npd)],
                'ts': [[i, 1] for i in rng.sample(ids, min(n_ts, len(ids)))],
                'from_string': cls == 'Reaction' and rng.random() < 0.2}}
        if False:
            pass
        if len(self.cond) < sw['n_cond'] and (not self.cond or rng.random() < 0.3):
            blocks = {}
            for i in sorted(self.sp):
                if rng.random() < 0.3:
                    blocks[self.sp[i].name] = {'P': round(10 ** rng.uniform(-3, 2), 4)}
            if rng.random() < 0.2:
                blocks['ZZ'] = {'P': 3.0}
            d = {'T': round(rng.uniform(200, 1500), 2)}
            if rng.random() < 0.7:
                d['P'] = round(10 ** rng.uniform(-3, 2), 4)
            return {'c': c, 'op': 'mkcond', 'args': {'id': len(self.cond), 'top': d, 'blocks': blocks}}
        kinds = ['eval'] * sw['w_eval'] + ['editcond', 'editspecies'] * sw['w_edit'] + ['rescale', 'badcall'] * sw.get('w_hist', 0)
        kind = rng.choice(kinds)
        if kind == 'rescale':
            cand = [r_ for r_ in sorted(self.rxn) if self.rxm[r_].get('bep') is None]
            if cand:
                return {'c': c, 'op': 'rescale', 'args': {'rxn': rng.choice(cand), 'f': rng.choice([2.0, 0.5, 3.0, 0.25])}}
            kind = 'eval'
        if kind == 'badcall':
            return {'c': c, 'op': 'badcall', 'args': {'rxn': rng.choice(sorted(self.rxn)),
                                                      'q': rng.choice(['GoRT', 'HoRT', 'SoR'])}}
        if kind == 'editcond':
            k = rng.choice(sorted(self.cond))
            names = [self.sp[i].name for i in sorted(self.sp)]
            return {'c': c, 'op': 'editcond', 'args': {'id': k, 'name': rng.choice(names + ['top']),
                                                       'P': round(10 ** rng.uniform(-3, 2), 4),
                                                       'remove': rng.random() < 0.2}}
        if kind == 'editspecies':
            return {'c': c, 'op': 'editspecies', 'args': {'id': rng.choice(sorted(self.sp)),
                                                          'dE': round(rng.uniform(-2, 2), 4)}}
        r = rng.choice(sorted(self.rxn))
        cls = self.rxm[r]['cls']
        q = rng.choice(QUANT if cls == 'Reaction' else UNCLAMPED + ['HoRT', 'GoRT'])
        if self.rxm[r].get('bep') is not None and rng.random() < 0.8:
            q = rng.choice(['HoRT', 'SoR', 'GoRT'])
        return {'c': c, 'op': 'eval', 'args': {'rxn': r, 'cond': rng.choice(sorted(self.cond)), 'q': q,
                                               'rev': rng.random() < 0.5,
                                               'flags': rng.choice(['bool', 'bool', 'bool', 'numpy', 'int'])}}

    # ------------------------------------------------------------------ helpers
    def _mk_species(self, a):
        np = self.np
        if a['kind'] == 'StatMech':
            return self.sm.StatMech(name=a['name'], elements={'H': 2, 'O': 1},
                                    trans_model=self.trans.FreeTrans(n_degrees=3, molecular_weight=a['mw']),
                                    vib_model=self.vib.HarmonicVib(vib_wavenumbers=list(a['wn'])),
                                    rot_model=self.rot.RigidRotor(symmetrynumber=2, rot_temperatures=list(a['rot']),
                                                                  geometry='nonlinear'),
                                    elec_model=self.elec.GroundStateElec(potentialenergy=a['E'], spin=0),
                                    nucl_model=(self.sm.ConstantMode(**a['const']) if a.get('const') else self.sm.EmptyMode()))
        s = a['scale']
        if a['kind'] == 'Nasa':
            return self.nasa.Nasa(name=a['name'], elements={'H': 2, 'O': 1}, phase=a['phase'], T_low=100.0, T_mid=1000.0,
                                  T_high=3500.0, a_low=[v * s for v in H2O_LOW], a_high=[v * s for v in H2O_HIGH])
        return self.sho.Shomate(name=a['name'], elements={'H': 2, 'O': 1}, phase=a['phase'], T_low=100.0, T_high=3500.0,
                                a=np.array([v * s for v in SHO_A]), units='J/mol/K')

    def _route(self, name, cond):
        """Independent router: X_kwargs applies to species X only; nested blocks never reach a species otherwise."""
        kw = {k: v for k, v in cond.items() if 'kwargs' not in k}
        blk = cond.get(name + '_kwargs')
        if isinstance(blk, dict):
            kw.update(blk)
        return kw

    def _species_value(self, sid, q, cond):
        sp = self.sp[sid]
        kw = self._route(sp.name, cond)
        if q == 'EoRT':
            if self.spk[sid] != 'StatMech':
                return None
            return float(sp.get_EoRT(T=kw['T']))
        if q == 'q':
            if self.spk[sid] != 'StatMech':
                return None
            return float(sp.get_q(**kw))
        if q in ('CvoR', 'UoRT', 'FoRT') and self.spk[sid] != 'StatMech':
            return None
        return float(getattr(sp, 'get_' + q)(**kw))

    def _state(self, members, q, cond):
        tot = 1.0 if q == 'q' else 0.0
        scale = 0.0
        for sid, nu in members:
            v = self._species_value(sid, q, cond)
            if v is None:
                return None, None
            if q == 'q':
                try:
                    tot *= v ** nu
                except OverflowError:
                    tot = float('inf')         # outside floating-point range: nothing can be demanded (see _close)
            else:
                tot += nu * v
                scale += abs(nu * v)
        return tot, max(scale, 1.0)

    def _bep_state(self, m, q, cond):
        """Transition state of THIS reaction from a BEP relation: H_ts = H_reactants + Ea(forward), S_ts = S_reactants,
        Ea(forward) = slope' x descriptor of this reaction + intercept (kcal/mol)."""
        b = self.bepm[m['bep']]
        T = cond['T']
        Hr, s1 = self._state(m['reactants'], 'HoRT', cond)
        Hp, s2 = self._state(m['products'], 'HoRT', cond)
        Sr, s3 = self._state(m['reactants'], 'SoR', cond)
        if Hr is None or Hp is None or Sr is None:
            return None, None
        d = b['descriptor']
        desc = {'delta_H': Hp - Hr, 'rev_delta_H': Hr - Hp, 'reactants_H': Hr, 'products_H': Hp}[d]
        slope = b['slope'] - 1.0 if d == 'rev_delta_H' else b['slope']
        Ea = slope * desc + b['intercept'] / (self.R_kcal * T)
        H = Hr + Ea
        scale = s1 + s2 + abs(b['intercept'] / (self.R_kcal * T))
        if q == 'HoRT':
            return H, scale
        if q == 'SoR':
            return Sr, s3
        return H - Sr, scale + s3

    def _close(self, got, want, scale, q):
        if not (math.isfinite(want) and abs(want) < 1e250 and (q != 'q' or abs(want) > 1e-250)):
            return True          # outside floating-point range: nothing can be demanded
        if q == 'q':
            return abs(got - want) <= 1e-9 * max(abs(want), 1e-300)
        return abs(got - want) <= 1e-10 * scale

    # ------------------------------------------------------------------ apply
    def apply(self, op):
        a = op['args']
        name = op['op']
        ctx = self.ctx
        if name == 'mkspecies':
            if a['id'] in self.sp:
                raise Skip()
            self.sp[a['id']] = self._mk_species(a)
            self.spk[a['id']] = a['kind']
            self.spc[a['id']] = bool(a.get('const'))
            out = a['kind']
        elif name == 'mkbep':
            if a['id'] in self.bep or a['descriptor'] not in BEP_DESCRIPTORS:
                raise Skip()
            self.bep[a['id']] = self.real(self.bepmod.BEP, slope=a['slope'], intercept=a['intercept'],
                                          name='BEP%d' % a['id'], descriptor=a['descriptor'], _what='BEP constructor')
            self.bepm[a['id']] = {'slope': a['slope'], 'intercept': a['intercept'], 'descriptor': a['descriptor']}
            out = 'bep'
        elif name == 'mkrxn':
            if a['id'] in self.rxn:
                raise Skip()
            if a.get('bep') is not None and (a['bep'] not in self.bep or a['ts'] or a['cls'] != 'Reaction'):
                raise Skip()
            allm = a['reactants'] + a['products'] + a['ts']
            if any(i not in self.sp for i, _ in allm) or not a['reactants'] or not a['products']:
                raise Skip()
            if a['cls'] != 'Reaction' and any(self.spk[i] == 'StatMech' for i, _ in allm):
                raise Skip()
            made_from = None
            R = [self.sp[i] for i, _ in a['reactants']]
            P = [self.sp[i] for i, _ in a['products']]
            TS = [self.sp[i] for i, _ in a['ts']] or None
            kw = dict(reactants=R, reactants_stoich=[n for _, n in a['reactants']], products=P,
                      products_stoich=[n for _, n in a['products']], transition_state=TS,
                      transition_state_stoich=[n for _, n in a['ts']] if TS else None)
            if a.get('stoich_as') == 'array':
                for k_ in ('reactants_stoich', 'products_stoich', 'transition_state_stoich'):
                    if kw[k_] is not None:
                        kw[k_] = self.np.array(kw[k_], dtype=float)
                ctx.probe('coefficients-as-numpy-array')
            if a.get('bep') is not None:
                kw.update(transition_state=[self.bep[a['bep']]], transition_state_stoich=[1])
                if any(m.get('bep') == a['bep'] for m in self.rxm.values()):
                    ctx.probe('bep-shared-by-two-reactions')
            if a.get('from_string') and len(set(i for i, _ in allm)) == len(allm):
                ctx.probe('from-string')
                fmt = lambda ms: '+'.join('%s%s' % ('' if n == 1 else repr(float(n)), self.sp[i].name) for i, n in ms)
                s = fmt(a['reactants']) + '=' + ((fmt(a['ts']) + '=') if a['ts'] else '') + fmt(a['products'])
                by_name = {self.sp[i].name: self.sp[i] for i in self.sp}
                rxn = self.real(self.rx.Reaction.from_string, s, by_name, _what='Reaction.from_string(%r)' % s)
                made_from = s
            elif a['cls'] == 'Reaction':
                rxn = self.real(self.rx.Reaction, _what='Reaction constructor', **kw)
            elif a['cls'] == 'ChemkinReaction':
                rxn = self.real(self.rx.ChemkinReaction, _what='ChemkinReaction constructor', **kw)
            else:
                rxn = self.real(self.orx.SurfaceReaction, _what='SurfaceReaction constructor', **kw)
            self.rxn[a['id']] = rxn
            self.rxm[a['id']] = {'reactants': [tuple(x) for x in a['reactants']], 'products': [tuple(x) for x in a['products']],
                                 'ts': [tuple(x) for x in a['ts']], 'cls': a['cls'], 'bep': a.get('bep'), 'string': made_from,
                                 'reactants0': [tuple(x) for x in a['reactants']], 'products0': [tuple(x) for x in a['products']],
                                 'ts0': [tuple(x) for x in a['ts']]}
            if made_from and any(m_.get('string') == made_from for k_, m_ in self.rxm.items() if k_ != a['id']):
                ctx.probe('two-reactions-from-one-string')
            if any(n != int(n) for _, n in allm):
                ctx.probe('fractional-stoichiometry')
            if len(a['ts']) == 2:
                ctx.probe('two-transition-state-species')
            if set(i for i, _ in a['reactants']) & set(i for i, _ in a['products']):
                ctx.probe('species-on-both-sides')
            if len(set(self.spk[i] for i, _ in allm)) > 1:
                ctx.probe('mixed-model-classes')
            if any(self.spc.get(i) for i, _ in allm):
                ctx.probe('species-with-constant-mode')
            for sid in set(i for i, _ in allm):
                n = sum(1 for m in self.rxm.values() if sid in [i for i, _ in m['reactants'] + m['products'] + m['ts']])
                if n >= 3:
                    ctx.probe('species-in-three-reactions')
            out = a['cls']
        elif name == 'rescale':
            if a['rxn'] not in self.rxn or self.rxm[a['rxn']].get('bep') is not None:
                raise Skip()
            rxn, m = self.rxn[a['rxn']], self.rxm[a['rxn']]
            f = a['f']
            # the caller puts the reaction on another basis by editing its coefficient lists in place
            for attr, key in (('reactants_stoich', 'reactants'), ('products_stoich', 'products'),
                              ('transition_state_stoich', 'ts')):
                lst = getattr(rxn, attr)
                if lst is None:
                    continue
                for i_ in range(len(lst)):
                    lst[i_] *= f
                m[key] = [(sid, nu * f) for sid, nu in m[key]]
            ctx.probe('coefficients-edited-in-place')
            self.edited = True
            out = 'rescaled'
        elif name == 'badcall':
            if a['rxn'] not in self.rxn:
                raise Skip()
            try:
                getattr(self.rxn[a['rxn']], 'get_delta_' + a['q'])(P=2.0)        # the temperature was forgotten
            except Exception:
                ctx.probe('rejected-call-then-valid-calls')
            out = 'bad call'
        elif name == 'mkcond':
            if a['id'] in self.cond:
                raise Skip()
            d = dict(a['top'])
            for nm, blk in a['blocks'].items():
                d[nm + '_kwargs'] = dict(blk)
            self.cond[a['id']] = d
            self.cond_uses[a['id']] = 0
            out = len(d)
        elif name == 'editcond':
            if a['id'] not in self.cond:
                raise Skip()
            d = self.cond[a['id']]
            if a['name'] == 'top':
                d['P'] = a['P']
            elif a.get('remove'):
                d.pop(a['name'] + '_kwargs', None)
            else:
                d.setdefault(a['name'] + '_kwargs', {})['P'] = a['P']
            out = len(d)
        elif name == 'editspecies':
            if a['id'] not in self.sp:
                raise Skip()
            sp = self.sp[a['id']]
            if self.spk[a['id']] == 'StatMech':
                sp.elec_model.potentialenergy = sp.elec_model.potentialenergy + a['dE']
            elif self.spk[a['id']] == 'Nasa':
                sp.a_low[5] += a['dE'] * 1000.0
                sp.a_high[5] += a['dE'] * 1000.0
            else:
                sp.a[5] += a['dE']
            self.edited = True
            out = 'edited'
        elif name == 'eval':
            if a['rxn'] not in self.rxn or a['cond'] not in self.cond:
                raise Skip()
            out = self._eval(a['rxn'], a['cond'], a['q'], a['rev'], a.get('flags', 'bool'))
        else:
            raise Skip()
        # cheap global invariant: every reaction's enthalpy change at a fixed condition equals the independent sum
        fixed = {'T': 500.0, 'P': 1.0}
        for r in sorted(self.rxn):
            m = self.rxm[r]
            q = 'HoRT' if m['cls'] == 'Reaction' else 'SoR'
            ini, s1 = self._state(m['reactants'], q, fixed)
            fin, s2 = self._state(m['products'], q, fixed)
            if ini is None or fin is None:
                continue
            got = float(self.real(getattr(self.rxn[r], 'get_delta_' + q), _what='get_delta_%s' % q, **dict(fixed)))
            if not self._close(got, fin - ini, s1 + s2, q):
                raise Violation('hess', 'reaction %d: get_delta_%s = %r, stoichiometric sum over its species = %r' % (
                    r, q, got, fin - ini))
        return out

    def _eval(self, r, cid, q, rev, flags='bool'):
        ctx = self.ctx
        # the truth values a caller passes: Python bools, numpy bools (rev = dG > 0) or 0/1
        if flags == 'numpy':
            F = lambda b: self.np.bool_(b)
            ctx.probe('flags-as-numpy-bool')
        elif flags == 'int':
            F = lambda b: int(b)
            ctx.probe('flags-as-int')
        else:
            F = bool
        rxn, m = self.rxn[r], self.rxm[r]
        cond = self.cond[cid]
        snap = copy.deepcopy(cond)
        self.cond_uses[cid] += 1
        if self.cond_uses[cid] > 1:
            ctx.probe('condition-dict-reused')
        names = set(self.sp[i].name for i, _ in m['reactants'] + m['products'] + m['ts'])
        blocks = [k[:-7] for k in cond if k.endswith('_kwargs')]
        if any(b in names for b in blocks):
            ctx.probe('block-for-one-species')
        if any(b not in names for b in blocks):
            ctx.probe('block-for-absent-species')
        if self.edited:
            ctx.probe('edit-then-evaluate')
        if m['cls'] == 'ChemkinReaction':
            ctx.probe('chemkin-unclamped')
        if m['cls'] == 'SurfaceReaction':
            ctx.probe('surface-unclamped')
        states = {'reactants': m['reactants'], 'products': m['products']}
        if m['ts']:
            states['transition state'] = m['ts']
        bep_ok = False
        if m.get('bep') is not None and q in ('HoRT', 'SoR', 'GoRT'):
            # the relation reads its reaction's states at the conditions it is handed; with a block addressed to a member
            # the statement does not say which conditions those are, so the transition state is then not judged
            if not any(b in names or b == 'BEP%d' % m['bep'] for b in blocks):
                bep_ok = True
                states['transition state'] = 'bep'
                ctx.probe('bep-transition-state')
        val = {}
        worst = 0.0

        def call(fn, what, **kw):
            out = self.real(fn, _what=what, **dict(cond, **kw))
            if cond != snap:
                raise Violation('conditions-unmodified', '%s changed the caller\'s condition dictionary: %r -> %r' % (
                    what, snap, cond))
            return float(out)

        for st, members in states.items():
            if members == 'bep':
                want, scale = self._bep_state(m, q, cond)
            else:
                want, scale = self._state(members, q, cond)
            if want is None:
                return 'n/a'
            val[st] = (want, scale)
            got = call(getattr(rxn, 'get_%s_state' % q), 'get_%s_state(%s)' % (q, st), state=st)
            if not self._close(got, want, scale, q):
                raise Violation('state-sum', 'reaction %d (%s): get_%s_state(%r) = %r under %r; stoichiometric sum with the '
                                'documented keyword routing = %r' % (r, m['cls'], q, st, got, cond, want))
        ini, fin = ('products', 'reactants') if rev else ('reactants', 'products')
        scale = val[ini][1] + val[fin][1]
        if q == 'q':
            # (a product that underflowed to zero is outside floating-point range: nothing can be demanded, see _close)
            want = val[fin][0] / val[ini][0] if val[ini][0] != 0 else float('inf')
        else:
            want = val[fin][0] - val[ini][0]
        got = call(getattr(rxn, 'get_delta_' + q), 'get_delta_%s(rev=%s)' % (q, rev), rev=F(rev))
        if not self._close(got, want, scale, q):
            raise Violation('hess', 'reaction %d (%s): get_delta_%s(rev=%s) = %r under %r; final - initial = %r' % (
                r, m['cls'], q, rev, got, cond, want))
        back = call(getattr(rxn, 'get_delta_' + q), 'get_delta_%s(rev=%s)' % (q, not rev), rev=F(not rev))
        if q == 'q':
            ctx.probe('q-ratio')
            if math.isfinite(got) and math.isfinite(back) and 1e-250 < abs(got) < 1e250 and abs(got * back - 1.0) > 1e-9:
                raise Violation('reversal', 'reaction %d: delta_q forward x reverse = %r' % (r, got * back))
        elif abs(got + back) > 1e-10 * scale:
            raise Violation('reversal', 'reaction %d: get_delta_%s forward %r, reverse %r' % (r, q, got, back))
        if 'transition state' in val:
            ctx.probe('rev-and-act')
            ts, tscale = val['transition state']
            acts = {}
            for rv in (False, True):
                i0 = 'products' if rv else 'reactants'
                w = (ts / val[i0][0] if val[i0][0] != 0 else float('inf')) if q == 'q' else ts - val[i0][0]
                g = call(getattr(rxn, 'get_delta_' + q), 'get_delta_%s(rev=%s, act=True)' % (q, rv), rev=F(rv), act=F(True))
                if not self._close(g, w, tscale + val[i0][1], q):
                    raise Violation('activation', 'reaction %d: get_delta_%s(rev=%s, act=True) = %r; transition state - '
                                    'initial state = %r' % (r, q, rv, g, w))
                acts[rv] = g
                if q not in ('EoRT', 'q') and not (m['cls'] != 'Reaction' and q in ('HoRT', 'GoRT')):
                    g2 = call(getattr(rxn, 'get_%s_act' % q), 'get_%s_act(rev=%s)' % (q, rv), rev=F(rv))
                    if not self._close(g2, w, tscale + val[i0][1], q):
                        raise Violation('activation', 'reaction %d: get_%s_act(rev=%s) = %r; transition state - initial '
                                        'state = %r' % (r, q, rv, g2, w))
            fwd_delta = (val['products'][0] / val['reactants'][0] if val['reactants'][0] != 0 else float('inf')) if q == 'q' \
                else val['products'][0] - val['reactants'][0]
            if q == 'q':
                vals3 = [acts[False], acts[True], fwd_delta]
                ok = not all(math.isfinite(v) and 1e-150 < abs(v) < 1e150 for v in vals3) or \
                    abs(acts[False] / acts[True] - fwd_delta) <= 1e-9 * abs(fwd_delta)
            else:
                ok = abs((acts[False] - acts[True]) - fwd_delta) <= 1e-10 * (scale + 2 * tscale)
            if not ok:
                raise Violation('detailed-balance', 'reaction %d: forward - reverse activation %s = %r, reaction change %r' % (
                    r, q, acts[False] - acts[True], fwd_delta))
        if q == 'GoRT' and m['cls'] == 'Reaction' and abs(val['products'][0] - val['reactants'][0]) < 600.0:
            ctx.probe('Keq-product')
            kf = call(rxn.get_Keq, 'get_Keq', rev=F(False))
            kr = call(rxn.get_Keq, 'get_Keq(rev=True)', rev=F(True))
            dG = val['products'][0] - val['reactants'][0]
            if abs(math.log(kf) + dG) > 1e-9 * max(1.0, scale):
                raise Violation('Keq', 'reaction %d: ln Keq = %r, -delta G/RT = %r' % (r, math.log(kf), -dG))
            if abs(math.log(kf) + math.log(kr)) > 1e-9 * max(1.0, scale):
                raise Violation('Keq', 'reaction %d: Keq(forward) x Keq(reverse) = %r' % (r, kf * kr))
        if m['ts'] and m.get('bep') is None and q == 'q' and all(self.spk[i] == 'StatMech' for i, _ in m['reactants'] + m['products'] + m['ts']):
            # the partition-function ratio of activation (its default leaves the zero-point energy out)
            for rv in (False, True):
                num, den = 1.0, 1.0
                try:
                    for sid, nu in m['ts']:
                        num *= float(self.sp[sid].get_q(include_ZPE=False, **self._route(self.sp[sid].name, cond))) ** nu
                    for sid, nu in m['products' if rv else 'reactants']:
                        den *= float(self.sp[sid].get_q(include_ZPE=False, **self._route(self.sp[sid].name, cond))) ** nu
                except OverflowError:
                    continue
                gq = call(rxn.get_q_act, 'get_q_act(rev=%s)' % rv, rev=F(rv))
                wq = num / den if den else float('inf')
                if math.isfinite(wq) and 1e-250 < abs(wq) < 1e250 and abs(gq - wq) > 1e-9 * abs(wq):
                    raise Violation('activation', 'reaction %d: get_q_act(rev=%s) = %r; q_ts / q_initial without zero-point energy = %r' % (
                        r, rv, gq, wq))
            ctx.probe('q-of-activation')
        if 'transition state' in val and q == 'GoRT' and m['cls'] == 'Reaction':
            # the equilibrium constant of activation, in both directions
            ts = val['transition state'][0]
            for rv in (False, True):
                dGa = ts - val['products' if rv else 'reactants'][0]
                if abs(dGa) < 600.0:
                    ka = call(rxn.get_Keq, 'get_Keq(rev=%s, act=True)' % rv, rev=F(rv), act=F(True))
                    if abs(math.log(ka) + dGa) > 1e-9 * max(1.0, scale + val['transition state'][1]):
                        raise Violation('Keq', 'reaction %d: ln Keq(rev=%s, act=True) = %r, -(G_ts - G_initial)/RT = %r' % (
                            r, rv, math.log(ka), -dGa))
                    ctx.probe('Keq-of-activation')
        if m['ts'] and m.get('bep') is None and (q == 'HoRT' or (m['cls'] != 'Reaction' and q in ('UoRT', 'SoR', 'CpoR'))):
            hv = {st_: self._state(mem_, 'HoRT', cond) for st_, mem_ in (('reactants', m['reactants']),
                                                                         ('products', m['products']),
                                                                         ('transition state', m['ts']))}
            if any(v_[0] is None for v_ in hv.values()):
                return round(worst, 9)
            hscale = hv['reactants'][1] + hv['products'][1]
            # Arrhenius activation energy with the molecularity change stated by the caller (0 for condensed-phase and
            # unimolecular steps): Ea/RT = dH_act/RT + (1 - del_m); with the same del_m both ways, forward - reverse = dH
            ts = hv['transition state'][0]
            for dm in (0, 1, -1):
                ea = {}
                for rv in (False, True):
                    w = ts - hv['products' if rv else 'reactants'][0] + (1 - dm)
                    g = call(rxn.get_EoRT_act, 'get_EoRT_act(rev=%s, del_m=%d)' % (rv, dm), rev=F(rv), del_m=dm)
                    if not self._close(g, w, hv['transition state'][1] + hscale, 'HoRT'):
                        raise Violation('activation', 'reaction %d: get_EoRT_act(rev=%s, del_m=%d) = %r; dH_act/RT + (1 - del_m) = %r' % (
                            r, rv, dm, g, w))
                    ea[rv] = g
                dH = hv['products'][0] - hv['reactants'][0]
                if abs((ea[False] - ea[True]) - dH) > 1e-10 * (hscale + 2 * hv['transition state'][1]):
                    raise Violation('detailed-balance', 'reaction %d: Ea forward - reverse (del_m=%d) = %r, reaction enthalpy %r' % (
                        r, dm, ea[False] - ea[True], dH))
            ctx.probe('arrhenius-Ea-explicit-molecularity')
        if q in ('HoRT', 'GoRT', 'UoRT', 'FoRT', 'EoRT', 'SoR', 'CvoR', 'CpoR') and m['cls'] == 'Reaction':
            # the same relations in dimensional form: every state, the change and the activation value are the dimensionless
            # ones times R T (energies) or R (entropy, heat capacities) in the requested unit - one constants table for all
            from pmutt import constants as pc
            T = cond['T']
            per_K = q in ('SoR', 'CvoR', 'CpoR')
            name_ = q[:-2] if per_K else q[:-3]
            for unit in ('kcal/mol', 'J/mol', 'cal/mol', 'kJ/mol', 'eV/molecule'):
                try:
                    fac = pc.R(unit + '/K') * (1.0 if per_K else T)
                except KeyError:
                    continue
                u_arg = unit + '/K' if per_K else unit
                for st_ in ('reactants', 'products') + (('transition state',) if 'transition state' in val else ()):
                    gs = call(getattr(rxn, 'get_%s_state' % name_), 'get_%s_state(%s, units=%r)' % (name_, st_, u_arg),
                              units=u_arg, state=st_)
                    if abs(gs - val[st_][0] * fac) > 1e-10 * val[st_][1] * fac:
                        raise Violation('state-sum', 'reaction %d: get_%s_state(%r, units=%r) = %r; stoichiometric sum x R%s = %r' % (
                            r, name_, st_, u_arg, gs, '' if per_K else ' T', val[st_][0] * fac))
                wantd = (val['products'][0] - val['reactants'][0]) * fac
                gotd = call(getattr(rxn, 'get_delta_' + name_), 'get_delta_%s(units=%r)' % (name_, u_arg), units=u_arg)
                if abs(gotd - wantd) > 1e-10 * (scale * fac):
                    raise Violation('hess', 'reaction %d: get_delta_%s(units=%r) = %r; (final - initial) x R%s = %r' % (
                        r, name_, u_arg, gotd, '' if per_K else ' T', wantd))
                if 'transition state' in val and q != 'EoRT' and hasattr(rxn, 'get_%s_act' % name_):
                    af = call(getattr(rxn, 'get_%s_act' % name_), 'get_%s_act(units=%r)' % (name_, u_arg), units=u_arg, rev=F(False))
                    ar = call(getattr(rxn, 'get_%s_act' % name_), 'get_%s_act(units=%r, rev)' % (name_, u_arg), units=u_arg, rev=F(True))
                    tsc = val['transition state'][1] * fac
                    if abs((af - ar) - gotd) > 1e-10 * (scale * fac + 2 * tsc):
                        raise Violation('detailed-balance', 'reaction %d: %s_act forward - reverse = %r %s, reaction change %r' % (
                            r, name_, af - ar, u_arg, gotd))
                    wa = (val['transition state'][0] - val['reactants'][0]) * fac
                    if abs(af - wa) > 1e-10 * (scale * fac + tsc):
                        raise Violation('activation', 'reaction %d: get_%s_act(units=%r) = %r; (transition state - reactants) x R%s = %r' % (
                            r, name_, u_arg, af, '' if per_K else ' T', wa))
            ctx.probe('dimensional-getters')
        if q == 'EoRT' and m['cls'] == 'Reaction' and all(self.spk[i] == 'StatMech' for i, _ in m['reactants'] + m['products']):
            # electronic energy with the zero-point energy included: the option reaches every species, in every form
            z = {}
            for st in ('reactants', 'products'):
                tot = 0.0
                for sid, nu in m[st]:
                    kw = self._route(self.sp[sid].name, cond)
                    tot += nu * float(self.sp[sid].get_EoRT(T=kw['T'], include_ZPE=True))
                z[st] = tot
            wz = z['products'] - z['reactants']
            for label, fn, kw2, factor in (
                    ('get_delta_EoRT(include_ZPE=True)', rxn.get_delta_EoRT, {}, 1.0),
                    ('get_delta_E(units=kJ/mol, include_ZPE=True)', rxn.get_delta_E, {'units': 'kJ/mol'},
                     __import__('pmutt').constants.R('kJ/mol/K') * cond['T'])):
                gz = call(fn, label, include_ZPE=True, **kw2)
                if abs(gz - wz * factor) > 1e-10 * max(1.0, abs(z['products']) + abs(z['reactants'])) * factor:
                    raise Violation('hess', 'reaction %d: %s = %r; sum over species with the zero-point energy = %r' % (
                        r, label, gz, wz * factor))
            ctx.probe('electronic-energy-with-ZPE')
        return round(worst, 9)

    def abstract_state(self):
        share = {}
        for m in self.rxm.values():
            for i, _ in m['reactants'] + m['products'] + m['ts']:
                share[i] = share.get(i, 0) + 1
        return [len(self.sp), len(self.rxn), len(self.cond), max(share.values()) if share else 0,
                sorted(sum(1 for k in d if k.endswith('_kwargs')) for d in self.cond.values())]

    def simplify(self, op):
        a = op['args']
        if op['op'] == 'mkrxn':
            for side in ('reactants', 'products', 'ts'):
                if len(a[side]) > (0 if side == 'ts' else 1):
                    for i in range(len(a[side])):
                        yield {**op, 'args': {**a, side: a[side][:i] + a[side][i + 1:]}}
            for side in ('reactants', 'products'):
                ones = [[i, 1] for i, _ in a[side]]
                if ones != a[side]:
                    yield {**op, 'args': {**a, side: ones}}
            if a.get('from_string'):
                yield {**op, 'args': {**a, 'from_string': False}}
        elif op['op'] == 'mkcond':
            for k in list(a['blocks']):
                yield {**op, 'args': {**a, 'blocks': {x: v for x, v in a['blocks'].items() if x != k}}}
            if 'P' in a['top']:
                yield {**op, 'args': {**a, 'top': {x: v for x, v in a['top'].items() if x != 'P'}}}
        elif op['op'] == 'mkspecies':
            if len(a['wn']) > 1:
                yield {**op, 'args': {**a, 'wn': a['wn'][:1]}}
