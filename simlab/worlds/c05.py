"""World C05: thermdat writers/readers over a fault-injecting file system and a simulated clock."""
import math
import string

from ..core import World, Violation, Skip, SimCrash
from ..seams import SimFS, SimClock, REAL_OPEN
from ..filekit import FileKit, gen_alloc, side_stream

SYMBOLS = ['H', 'C', 'O', 'N', 'S', 'F', 'B', 'K', 'P', 'I', 'U', 'W', 'V', 'Y',
           'He', 'Li', 'Ne', 'Na', 'Mg', 'Al', 'Si', 'Cl', 'Ar', 'Ca', 'Fe', 'Ni', 'Cu', 'Pt', 'Pd', 'Ru', 'Ag', 'Au']
PHASES = 'GSLBgsl'
NAME_ALPHA = string.ascii_letters + string.digits + '()*-_,.#+[]=/:;<>?@^`{|}~$%&\'"'
WRITE_FAULTS = ('open_error', 'write_error', 'close_error', 'crash_pre_open', 'crash_post_open',
                'crash_mid_write', 'crash_pre_close')
READ_FAULTS = ('read_open_error', 'read_error')
KEYWORDS = ('END', 'THERMO')


def sig9(x):
    return '%.8E' % x


def fmt_record(sp, date8):
    """Reference Chemkin thermdat formatter (independent of pmutt.io.thermdat)."""
    comp = ''
    for sym, n in sp['elements']:
        if n > 0:
            comp += '%-2s%3d' % (sym, n)
    l1 = '%-16s%-8s%-20s%1s%10.1f%10.1f%8.1f' % (sp['name'], date8[:8], comp, sp['phase'], sp['T_low'],
                                                 sp['T_high'], sp['T_mid'])
    l1 = '%-79s1' % l1
    ah, al = sp['a_high'], sp['a_low']
    f = lambda v: '% .8E' % v
    l2 = ''.join(f(v) for v in ah[0:5]) + '    2'
    l3 = ''.join(f(v) for v in [ah[5], ah[6], al[0], al[1], al[2]]) + '    3'
    l4 = ''.join(f(v) for v in al[3:7]) + ' ' * 15 + '    4'
    return [l1, l2, l3, l4]


class WorldC05(World):
    PROP = 'C05'
    RUNS = {'quick': 4000, 'thorough': 80000}
    WALL = {'quick': 50, 'thorough': 560}
    STATE_CHANGING = ('write', 'write_text', 'write_enum')
    STATE_RULE = 'per path: (absent | undefined | number of species bucket, last write faulted?, newline convention)'
    PROBES = ('overwrite-smaller', 'overwrite-larger', 'write-after-failed-write', 'read-of-torn-file',
              'read-absent', 'two-digit-count', 'three-digit-count', 'four-elements', 'name-15-chars',
              'name-starts-with-digit', 'zero-count-entry', 'dict-input', 'tuple-read', 'dict-read', 'crlf-newline',
              'supp-data', 'supp-txt', 'supp-record-shares-a-name', 'second-generation', 'rewrite-after-in-place-edit', 'cross-encoding-read-refused', 'non-ascii-name', 'same-length-overwrite',
              'persistent-fault', 'no-date', 'extreme-coefficients', 'zero-coefficient', '>=50-species',
              'clock-jump-before-write', 'fault-did-not-fire', 'comment-with-keyword', 'two-letter-three-digit', 'recovery-after-fault', 'read-of-padded-file', 'comma-decimal-locale', 'alloc-failure-signalled', 'alloc-failure-over-existing-file')
    REAL = ('pmutt.io.thermdat.write_thermdat / read_thermdat and helpers', 'pmutt.empirical.nasa.Nasa')
    SIMULATED = ('disk: SimFS shim over a scratch directory (open/write/close errors, ENOSPC after k chars, crash at '
                 'pre_open/post_open/mid_write/pre_close, read-open and mid-read errors)',
                 'clock: SimClock bound to pmutt.io.thermdat.datetime (jumps: years, backward, midnight, year 1000/9999)',
                 'allocator: SimAlloc (MemoryError at a seeded function entry of the writer call)',
                 'locale: locale.localeconv() answering with a decimal comma for a third of the runs',
                 'a tool between writer and reader that pads records with trailing blanks',
                 '1-3 clients writing and reading 2-4 paths')
    TRIGGERS = {
        'C05-name-keyword': 'a written species name contains END or THERMO',
        'C05-notes-keyword': 'write_date=False and the first 8 characters of a species\' notes contain END or THERMO',
        'C05-name-bang': 'a written species name starts with "!"',
    }
    ASSUMPTIONS = ('power loss after close, silent corruption and short writes are not injected (pMuTT promises no fsync '
                   'durability; TextIOWrapper.write never returns short)',)
    MAX_STEPS = 50

    # ------------------------------------------------------------------ gen
    def _gen_swarm0(self, rng, tier):
        return {
            'n_clients': rng.randint(1, 3),
            'paths': ['f%d.dat' % i for i in range(rng.randint(1, 4))],
            'fault_rate': rng.choice([0.0, 0.0, 0.15, 0.3]),
            'fault_kinds': sorted(rng.sample(WRITE_FAULTS + READ_FAULTS, rng.randint(1, 9))),
            'jump_rate': rng.choice([0.0, 0.2, 0.5]),
            'max_species': rng.choice([1, 3, 6, 12, 12, 60, 200]),
            'extreme': rng.random() < 0.4,
            'name_style': rng.choice(['plain', 'plain', 'any', 'long', 'digits']),
            'w_read': rng.choice([1, 2, 3]),
            'enum': tier == 'thorough' and rng.random() < 0.25,
        }

    def gen_swarm(self, rng, tier):
        side = side_stream(rng)
        sw = self._gen_swarm0(rng, tier)
        # the embedding application runs under a locale whose decimal point is a comma (setlocale(LC_ALL, '') on a German
        # desktop): thermdat fields stay C-formatted numbers
        sw['numeric_locale'] = side.choice(['C', 'C', 'de'])
        sw['upper_symbols'] = rng.random() < 0.25
        sw['fs_mtime_res'] = rng.choice([1.0, 1.0, 2.0, 0.001])
        # a writer under a Latin-1 locale, a reader under UTF-8 (and names / notes that are not ASCII)
        sw['fs_write_encoding'] = rng.choice(['utf-8', 'utf-8', 'utf-8', 'latin-1'])
        sw['non_ascii'] = rng.random() < 0.3
        sw['w_same_shape'] = rng.choice([0.0, 0.3, 0.6])
        sw['w_reuse'] = rng.choice([0.0, 0.0, 0.3, 0.6])
        return sw

    def n_steps(self, rng, swarm):
        return rng.randint(4, 24) if swarm['max_species'] <= 12 else rng.randint(3, 8)

    def setup(self, swarm):
        import pmutt.io.thermdat as th
        import pmutt.empirical.nasa as nasa
        self.th, self.nasa = th, nasa
        self.fs = SimFS(self.ctx)
        self.clock = SimClock(self.ctx)
        self.ref = {}        # path -> ('ok', [species dicts], meta) | ('undefined',)
        self.failed_last = set()
        self.history = []    # (step, path, 'ack'|'fail')
        self.ack_text = {}   # path -> durable text when the write was acknowledged
        self.padded = set()  # paths whose records were padded with blanks since they were written
        self.plan = []
        self.shape = {}      # path -> layout options and species count of the last acknowledged write
        self.last = None     # (descriptors, live Nasa objects) of the most recent write call
        self._live = None

    def teardown(self):
        try:
            self.clock.uninstall()
        finally:
            self.fs.cleanup()

    def _name(self, rng, style, used):
        for _ in range(50):
            if style == 'plain':
                n = rng.randint(1, 10)
                s = rng.choice(string.ascii_uppercase) + ''.join(
                    rng.choice(string.ascii_uppercase + string.digits + '()*') for _ in range(n - 1))
            elif style == 'digits':
                s = rng.choice(string.digits) + ''.join(rng.choice(string.ascii_letters + string.digits)
                                                        for _ in range(rng.randint(0, 8)))
            elif style == 'long':
                s = ''.join(rng.choice(string.ascii_letters + string.digits + '()*-_') for _ in range(15))
            else:
                s = ''.join(rng.choice(NAME_ALPHA) for _ in range(rng.randint(1, 15)))
            if self.ctx.swarm.get('non_ascii') and rng.random() < 0.3 and s:
                # printable, not ASCII: a micro sign, a middle dot, an accent (all have a Latin-1 code)
                j = rng.randrange(len(s))
                s = s[:j] + rng.choice('\u00b5\u00b7\u00e9\u00c5') + s[j + 1:]
            if rng.random() < 0.08 and self.ctx.allow('C05-name-keyword'):
                kw = rng.choice(KEYWORDS)
                cut = rng.randint(0, max(0, min(len(s), 15 - len(kw))))
                s = (s[:cut] + kw + s[cut:])[:15]
            if rng.random() < 0.02 and self.ctx.allow('C05-name-bang'):
                s = '!' + s[:14]
            if not self.ctx.allow('C05-name-keyword') and any(k in s for k in KEYWORDS):
                continue
            if not self.ctx.allow('C05-name-bang') and s.startswith('!'):
                continue
            if s not in used:
                return s
        return 'X%d' % len(used)

    def _coef(self, rng, extreme):
        r = rng.random()
        if r < 0.08:
            return 0.0
        if extreme and r < 0.5:
            return rng.choice([-1, 1]) * rng.uniform(1, 9.999) * 10.0 ** rng.randint(-30, 29)
        return rng.choice([-1, 1]) * rng.uniform(0.1, 9.999) * 10.0 ** rng.randint(-13, 4)

    def _species(self, rng, used):
        sw = self.ctx.swarm
        name = self._name(rng, sw['name_style'], used)
        used.add(name)
        n_el = rng.randint(1, 4)
        syms = rng.sample(SYMBOLS, n_el + rng.choice([0, 0, 1]))
        if sw.get('upper_symbols'):
            syms = [x.upper() for x in syms]         # Chemkin's own convention: AR, PT, CL
        els = []
        for i, s in enumerate(syms):
            if i >= n_el:
                els.append([s, 0])
            else:
                els.append([s, rng.choice([1, 2, 3, 9, 10, 12, 99, 100, 250, 999])])
        rng.shuffle(els)
        T_low = round(rng.uniform(1, 2000), rng.choice([0, 1, 2]))
        T_mid = round(T_low + rng.uniform(5, 3000), rng.choice([0, 1, 2]))
        T_high = round(min(9999.9, T_mid + rng.uniform(5, 5000)), rng.choice([0, 1]))
        if not T_mid + 2 < T_high:
            T_mid = round((T_low + T_high) / 2, 1)
        notes = rng.choice([None, '', 'fit', 'DFT PBE-D3 note', 'x y'])
        if rng.random() < 0.05 and self.ctx.allow('C05-notes-keyword'):
            notes = rng.choice(['THERMO v2', 'BLEND 1', 'APPENDIX'])
        return {'name': name, 'elements': els, 'phase': rng.choice(PHASES), 'T_low': T_low, 'T_mid': T_mid,
                'T_high': T_high, 'a_low': [self._coef(rng, sw['extreme']) for _ in range(7)],
                'a_high': [self._coef(rng, sw['extreme']) for _ in range(7)], 'notes': notes}

    def _fault(self, rng, kinds):
        kind = rng.choice(kinds)
        f = {'kind': kind}
        if kind in ('write_error', 'crash_mid_write'):
            f['k'] = rng.choice([0.0, rng.random(), rng.random(), 0.999999, 1])
            f['errno'] = rng.choice(['ENOSPC', 'EIO'])
            if f['k'] == 1:
                f['k'] = 1          # absolute offset: after the first character
        elif kind in ('close_error', 'crash_pre_close'):
            f['k'] = rng.choice([0.0, round(rng.random(), 3), 1.0])
        elif kind == 'open_error':
            f['errno'] = rng.choice(['ENOENT', 'EACCES', 'ENOSPC', 'EMFILE', 'EROFS'])
        elif kind == 'read_open_error':
            f['errno'] = rng.choice(['EIO', 'EACCES', 'EMFILE'])
        elif kind == 'read_error':
            f['k'] = rng.choice([0, 1, 2, 3, 5, rng.randint(0, 40)])
        if kind in ('open_error', 'write_error', 'close_error') and rng.random() < 0.3:
            f['persistent'] = True          # the condition outlasts a retry
        return f

    def gen_op(self, rng):
        if self.plan:
            return self.plan.pop(0)
        side = side_stream(rng)
        op = self._gen_op0(rng)        # (drawn first: the main stream must move on whatever is returned)
        okp = sorted(p_ for p_, r_ in self.ref.items() if r_[0] == 'ok' and p_ in self.ack_text)
        if okp and side.random() < 0.04:
            # a tool between the writer and the reader pads the fixed-column records with trailing blanks (card images of 84
            # or 132 columns, an editor that leaves a blank behind): still the same Chemkin layout, the same species
            return {'c': 0, 'op': 'pad', 'gc': True, 'args': {'path': side.choice(okp), 'i': side.randrange(400),
                                                             'mode': side.choice(['all84', 'all132', 'one', 'records', 'single'])}}
        if op['op'] == 'write' and op.get('fault') is None and rng.random() < 0.05:
            # scripted: the disk fills up half-way through a write; the caller frees space and writes the same thing again;
            # later the interpreter collects what the failed call left behind
            import copy as _copy
            first = _copy.deepcopy(op)
            first['fault'] = {'kind': 'write_error', 'k': 0.5, 'errno': 'ENOSPC'}
            first['args']['reuse'] = None
            first['gc'] = False
            second = _copy.deepcopy(first)
            second['fault'] = None
            for d_ in second['args']['species']:          # (other numbers than the failed attempt's)
                d_['a_low'] = [v_ * 1.5 + 1.0 for v_ in d_['a_low']]
                d_['a_high'] = [v_ * 0.5 - 1.0 for v_ in d_['a_high']]
            third = _copy.deepcopy(second)
            third['gc'] = True
            self.plan = [second, third]
            return first
        op['gc'] = rng.random() < 0.6
        return op

    def _gen_op0(self, rng):
        sw = self.ctx.swarm
        c = rng.randrange(sw['n_clients'])
        path = rng.choice(sw['paths'])
        jump = None
        if rng.random() < sw['jump_rate']:
            from ..seams import JUMPS
            jump = {'kind': rng.choice(sorted(JUMPS)), 'r': rng.randint(1, 5000)}
        kinds = ['write'] * 3 + ['write_text'] + ['read'] * sw['w_read']
        if sw['enum']:
            kinds += ['write_enum']
        kind = rng.choice(kinds)
        if not self.ref and kind == 'read' and rng.random() < 0.8:
            kind = 'write'
        fault = None
        if kind in ('write', 'write_text', 'write_enum'):
            n = rng.randint(1, sw['max_species'])
            if path in self.ref and self.ref[path][0] == 'ok' and rng.random() < 0.5:
                m = len(self.ref[path][1])
                n = rng.choice([max(1, m - rng.randint(1, 3)), m + rng.randint(1, 3)])
                n = max(1, min(n, 200))
            shape = self.shape.get(path)
            same_shape = bool(shape) and kind == 'write' and rng.random() < sw.get('w_same_shape', 0.0)
            if same_shape:
                n = shape['n']         # as many species, same layout options: a file of exactly the same length
            used = set()
            supp = None
            if rng.random() < 0.15 and not same_shape:
                supp = [self._species(rng, used) for _ in range(rng.randint(1, 2))]
            species = [self._species(rng, used) for _ in range(n)]
            if supp and rng.random() < 0.3:
                # a supplementary record for a species that is also in the list (an older fit kept for reference)
                supp[0] = dict(supp[0], name=rng.choice(species)['name'])
            wf = [k for k in sw['fault_kinds'] if k in WRITE_FAULTS]
            if kind == 'write' and wf and rng.random() < sw['fault_rate']:
                fault = self._fault(rng, wf)
            # bias: a fault right after an overwrite/failed write is more interesting
            if kind == 'write' and wf and fault is None and path in self.failed_last and rng.random() < sw['fault_rate']:
                fault = self._fault(rng, wf)
            if kind == 'write' and fault is None:
                fault = gen_alloc(rng)
            reuse = None
            if self.last is not None and rng.random() < sw.get('w_reuse', 0.0):
                # the caller keeps its species objects, adjusts enthalpies in place (a_low[5] += dH/R) and writes again
                m = len(self.last[0])
                reuse = [[rng.randrange(m), round(rng.uniform(-5000, 5000), 2)] for _ in range(rng.randint(1, 3))]
            args = {
                'path': path, 'species': species, 'reuse': reuse, 'as': rng.choice(['list', 'list', 'dict', 'tuple']),
                'write_date': rng.random() < 0.7, 'supp': supp, 'regen': rng.random() < 0.3,
                'supp_txt': rng.choice([None, None, '! comment line', '! two\n! lines\n', '! Species APPENDED by J. ENDERS',
                                        '! LEGEND: THERMO data fitted 300-1500 K\n! END of notes']),
                'newline': rng.choice(['\n', '\n', '\r\n'])}
            side = side_stream(rng)
            if sw['max_species'] >= 50 and not same_shape and side.random() < 0.12:
                # the largest file the property speaks of: 200 species and a banner of comments (beyond 64 KiB)
                while len(species) < 200:
                    species.append(self._species(side, used))
                args['species'] = species[:200]
                args['supp_txt'] = '\n'.join('! %02d  thermodynamic data set assembled for the full mechanism, revision %d' % (i_, i_)
                                             for i_ in range(side.randint(12, 30)))
                args['reuse'] = None
            if same_shape:
                # a file of exactly the same length, written within the same tick of the file system's clock
                args.update(write_date=shape['write_date'], supp_txt=shape['supp_txt'], newline=shape['newline'], reuse=None)
                jump = None
            return {'c': c, 'op': kind, 'fault': fault, 'jump': jump, 'args': args}
        rf = [k for k in sw['fault_kinds'] if k in READ_FAULTS]
        if rf and rng.random() < sw['fault_rate']:
            fault = self._fault(rng, rf)
        return {'c': c, 'op': 'read', 'fault': fault, 'jump': jump,
                'args': {'path': path, 'format': rng.choice(['list', 'list', 'tuple', 'dict'])}}

    # ------------------------------------------------------------------ helpers
    def _mk(self, d):
        els = {}
        for s, n in d['elements']:
            els[s] = n
        return self.nasa.Nasa(name=d['name'], elements=els, phase=d['phase'], T_low=d['T_low'], T_mid=d['T_mid'],
                              T_high=d['T_high'], a_low=list(d['a_low']), a_high=list(d['a_high']), notes=d['notes'])

    def _probe_species(self, species):
        p = self.ctx.probe
        for d in species:
            counts = [n for _, n in d['elements'] if n > 0]
            if any(10 <= n < 100 for n in counts):
                p('two-digit-count')
            if any(n >= 100 for n in counts):
                p('three-digit-count')
            if any(n >= 100 and len(s) == 2 for s, n in d['elements']):
                p('two-letter-three-digit')
            if len(counts) == 4:
                p('four-elements')
            if any(n == 0 for _, n in d['elements']):
                p('zero-count-entry')
            if len(d['name']) == 15:
                p('name-15-chars')
            if not d['name'].isascii():
                p('non-ascii-name')
            if d['name'][0].isdigit():
                p('name-starts-with-digit')
            mags = [abs(v) for v in d['a_low'] + d['a_high'] if v != 0]
            if mags and (max(mags) > 1e20 or min(mags) < 1e-20):
                p('extreme-coefficients')
            if any(v == 0 for v in d['a_low'] + d['a_high']):
                p('zero-coefficient')
        if len(species) >= 50:
            p('>=50-species')

    def _supp_text(self, supp):
        lines = []
        for d in supp:
            lines.extend(fmt_record(d, '20200101'))
        return '\n'.join(lines) + '\n'

    def _call_write(self, a, filename):
        if a.get('reuse') and self._live is not None:
            objs = self._live
        else:
            objs = [self._mk(d) for d in a['species']]
        self._objs_used = objs
        if a['as'] == 'dict':
            arg = {}
            for o in objs:
                arg[o.name] = o
        elif a['as'] == 'tuple':
            arg = tuple(objs)
        else:
            arg = objs
        kw = {}
        if a.get('supp'):
            kw['supp_data'] = self._supp_text(a['supp'])
        if a.get('supp_txt'):
            kw['supp_txt'] = a['supp_txt']
        return self.th.write_thermdat(arg, filename=filename, write_date=a['write_date'],
                                      newline=a['newline'], **kw)

    def _expected(self, a):
        return list(a.get('supp') or []) + list(a['species'])

    # layout oracle over a text ------------------------------------------------
    def _check_layout(self, text, a, newline, what, date8):
        sp = a['species']
        if newline == '\r\n':
            if '\n' in text.replace('\r\n', ''):
                raise Violation('layout', '%s: bare LF in a CRLF file' % what)
            if '\r' in text.replace('\r\n', ''):
                raise Violation('layout', '%s: bare CR in a CRLF file' % what)
            lines = text.split('\r\n')
        else:
            if '\r' in text:
                raise Violation('layout', '%s: CR in an LF file' % what)
            lines = text.split('\n')
        if lines and lines[-1] == '':
            lines = lines[:-1]
        if not lines or not lines[0].startswith('THERMO'):
            raise Violation('layout', '%s: first line is %r, not the THERMO header' % (what, lines[:1]))
        if lines[-1].strip() != 'END':
            raise Violation('layout', '%s: last line is %r, not END' % (what, lines[-1][:40]))
        body = lines[:-1]
        need = 4 * len(sp)
        if len(body) < need + 2:
            raise Violation('layout', '%s: %d lines for %d species' % (what, len(lines), len(sp)))
        recs = body[len(body) - need:]
        for i, d in enumerate(sp):
            r = recs[4 * i:4 * i + 4]
            for j, line in enumerate(r):
                if len(line) != 80:
                    raise Violation('layout', '%s: species %r record %d has %d columns, not 80: %r' % (
                        what, d['name'], j + 1, len(line), line))
                if line[79] != str(j + 1):
                    raise Violation('layout', '%s: species %r record %d has %r in column 80' % (
                        what, d['name'], j + 1, line[79]))
            l1 = r[0]
            if l1[:len(d['name'])] != d['name'] or l1[len(d['name'])] != ' ':
                raise Violation('layout', '%s: record 1 does not start with the name %r: %r' % (what, d['name'], l1))
            if a['write_date']:
                dates = getattr(self, '_dates', None)
                if not dates:
                    self.ctx.probe('clock-seam-missed')
                    ok = l1[16:24].isdigit()
                else:
                    ok = l1[16:24] in dates
                if not ok:
                    raise Violation('layout', '%s: date field (columns 17-24) is %r, simulated clock said %r' % (
                        what, l1[16:24], dates))
            want = [(s, n) for s, n in d['elements'] if n > 0]
            got = []
            for kk in range(4):
                fld = l1[24 + 5 * kk:29 + 5 * kk]
                if fld.strip() == '':
                    continue
                sym = fld[:2].strip()
                try:
                    cnt = int(fld[2:])
                except ValueError:
                    raise Violation('layout', '%s: composition field %d of %r is %r (columns 25-44: %r)' % (
                        what, kk + 1, d['name'], fld, l1[24:44]))
                got.append((sym, cnt))
            if sorted(got) != sorted(want):
                raise Violation('layout', '%s: composition columns 25-44 of %r read %r, species has %r' % (
                    what, d['name'], got, want))
            if l1[44] != d['phase']:
                raise Violation('layout', '%s: column 45 of %r is %r, phase is %r' % (what, d['name'], l1[44], d['phase']))
            try:
                ts = [float(x) for x in l1[45:79].split()]
            except ValueError:
                raise Violation('layout', '%s: temperature fields of %r unreadable: %r' % (what, d['name'], l1[45:79]))
            if len(ts) != 3 or any(abs(x - y) > 0.05 + 1e-9 for x, y in zip(ts, (d['T_low'], d['T_high'], d['T_mid']))):
                raise Violation('layout', '%s: temperatures of %r written as %r, species has %r' % (
                    what, d['name'], ts, (d['T_low'], d['T_high'], d['T_mid'])))
            ah, al = d['a_high'], d['a_low']
            exp = [ah[0:5], [ah[5], ah[6], al[0], al[1], al[2]], al[3:7]]
            for j in range(3):
                line = r[j + 1]
                for kk, v in enumerate(exp[j]):
                    fld = line[15 * kk:15 * kk + 15]
                    try:
                        g = float(fld)
                    except ValueError:
                        raise Violation('layout', '%s: coefficient field %r of %r is not a number' % (what, fld, d['name']))
                    if sig9(g) != sig9(v):
                        raise Violation('layout', '%s: coefficient of %r written as %r, value %r' % (
                            what, d['name'], fld, v))

    # read-back oracle -------------------------------------------------------
    def _check_read(self, got, expected, fmt, what):
        if fmt == 'dict':
            if not isinstance(got, dict):
                raise Violation('read-format', '%s: format=dict returned %s' % (what, type(got).__name__))
            names = list(got.keys())
            objs = list(got.values())
            for n, o in zip(names, objs):
                if n != o.name:
                    raise Violation('read-format', '%s: dict key %r holds species %r' % (what, n, o.name))
        else:
            if fmt == 'tuple' and not isinstance(got, tuple):
                raise Violation('read-format', '%s: format=tuple returned %s' % (what, type(got).__name__))
            if fmt == 'list' and not isinstance(got, list):
                raise Violation('read-format', '%s: format=list returned %s' % (what, type(got).__name__))
            objs = list(got)
        if fmt == 'dict':
            # two records of one name: a dictionary keeps the position of the first and the value of the last
            dd = {}
            for d in expected:
                dd[d['name']] = d
            expected = list(dd.values())
        gn = [o.name for o in objs]
        en = [d['name'] for d in expected]
        if gn != en:
            raise Violation('same-species', '%s: wrote %d species %r, read back %d species %r' % (
                what, len(en), en[:8], len(gn), gn[:8]))
        for o, d in zip(objs, expected):
            if o.phase != d['phase']:
                raise Violation('same-species', '%s: %r phase %r read back as %r' % (what, d['name'], d['phase'], o.phase))
            want = {s: n for s, n in d['elements'] if n > 0}
            if dict(o.elements) != want:
                raise Violation('same-species', '%s: %r elements %r read back as %r' % (what, d['name'], want, o.elements))
            for nm in ('T_low', 'T_mid', 'T_high'):
                if not abs(float(getattr(o, nm)) - d[nm]) <= 0.05 + 1e-9:
                    raise Violation('same-species', '%s: %r %s %r read back as %r' % (
                        what, d['name'], nm, d[nm], getattr(o, nm)))
            for nm in ('a_low', 'a_high'):
                for i, (g, v) in enumerate(zip(list(getattr(o, nm)), d[nm])):
                    if sig9(float(g)) != sig9(v):
                        raise Violation('same-species', '%s: %r %s[%d] %r read back as %r' % (
                            what, d['name'], nm, i, v, g))
                if len(getattr(o, nm)) != 7:
                    raise Violation('same-species', '%s: %r has %d %s' % (what, d['name'], len(getattr(o, nm)), nm))

    def _date8(self):
        return self.clock.t.strftime('%Y%m%d')

    # ------------------------------------------------------------------ apply
    def apply(self, op):
        a = op['args']
        name = op['op']
        ctx = self.ctx
        fs = self.fs
        if op.get('jump'):
            self.clock.jump(op['jump']['kind'], op['jump']['r'])
            if name != 'read':
                ctx.probe('clock-jump-before-write')
        else:
            self.clock.advance(3)
        if op.get('gc', True):
            # handles an earlier failed call left open are finalised now; acknowledged files must not change by that
            if fs.finalize_leaked():
                ctx.probe('leaked-handle-finalised')
            for pth, txt in sorted(self.ack_text.items()):
                if self.ref.get(pth, ('x',))[0] == 'ok' and fs.durable(pth) != txt:
                    raise Violation('acknowledged-file-changed-later', '%s was acknowledged complete and has changed since, '
                                    'without being written again (a handle left open by an earlier failed call was flushed '
                                    'late)' % pth)
        self._live = None
        if name in ('write', 'write_text', 'write_enum') and a.get('reuse'):
            if self.last is None:
                raise Skip()
            descs, objs = self.last
            descs = [dict(d, a_low=list(d['a_low']), a_high=list(d['a_high'])) for d in descs]
            for i, dh in a['reuse']:
                if not 0 <= i < len(objs):
                    raise Skip()
            for i, dh in a['reuse']:
                objs[i].a_low[5] += dh           # in place: same array objects as at the previous write
                objs[i].a_high[5] += dh
                descs[i]['a_low'][5] += dh
                descs[i]['a_high'][5] += dh
            a = dict(a, species=descs, supp=None)
            op = dict(op, args=a)
            self._live = objs
            ctx.probe('rewrite-after-in-place-edit')
        if name in ('write', 'write_text', 'write_enum'):
            # keep replayed ops inside the quantifier
            if not a['species'] or any(len(set(d['name'] for d in part)) != len(part)
                                       for part in (a['species'], a.get('supp') or [])):
                raise Skip()
            if set(d['name'] for d in a['species']) & set(d['name'] for d in a.get('supp') or []):
                ctx.probe('supp-record-shares-a-name')
            self._probe_species(a['species'])
            if a['as'] == 'dict':
                ctx.probe('dict-input')
            if a['newline'] == '\r\n':
                ctx.probe('crlf-newline')
            if a.get('supp'):
                ctx.probe('supp-data')
            if a.get('supp_txt'):
                ctx.probe('supp-txt')
                if 'END' in a['supp_txt'] or 'THERMO' in a['supp_txt']:
                    ctx.probe('comment-with-keyword')
            if not a['write_date']:
                ctx.probe('no-date')
        if name in ('write', 'write_text', 'write_enum'):
            self._objs_used = None
            try:
                if name == 'write':
                    return self._op_write(a, op.get('fault'))
                if name == 'write_text':
                    return self._op_write_text(a)
                return self._op_write_enum(a)
            finally:
                if self._objs_used is not None:
                    self.last = (a['species'], self._objs_used)
        if name == 'read':
            return self._op_read(a, op.get('fault'))
        if name == 'pad':
            return self._op_pad(a)
        raise Skip()

    def run(self, fn, fault=None):
        return self._with_seams(fn, fault)

    def _op_pad(self, a):
        fs, path = self.fs, a['path']
        if self.ref.get(path, ('x',))[0] != 'ok' or path not in self.ack_text or fs.durable(path) != self.ack_text[path]:
            raise Skip()
        text = self.ack_text[path]
        sep = '\r\n' if '\r\n' in text else ('\r' if '\r' in text else '\n')
        lines = text.split(sep)
        rec = [i for i, ln in enumerate(lines) if len(ln) == 80 and ln[79] in '1234']
        if not rec:
            raise Skip()
        mode = a['mode']
        if mode in ('all84', 'all132'):
            w = int(mode[3:])
            lines = [ln.ljust(w) if ln else ln for ln in lines]
        elif mode == 'one':
            lines = [ln + ' ' if ln else ln for ln in lines]
        elif mode == 'records':
            for i in rec:
                lines[i] += '    '
        else:
            first = [i for i in rec if lines[i][79] == '1']
            if not first:
                raise Skip()
            i = first[a['i'] % len(first)]
            lines[i] += ' '
        new = sep.join(lines)
        with REAL_OPEN(fs.path(path), 'wb') as f:
            f.write(new.encode(fs.enc.get(fs.path(path), 'utf-8'), 'replace'))
        if fs.durable(path) != new:
            raise Skip()
        fs.stamp(fs.path(path))
        self.ack_text[path] = new
        self.shape[path] = None
        self.padded.add(path)
        self.ctx.faults['records_padded_with_blanks'] += 1
        return 'padded (%s)' % mode

    def _with_seams(self, fn, fault):
        fs = self.fs
        self.clock.install()
        self.clock.log = []
        fs.install()
        fs.arm(fault)
        import locale as _locale
        real_conv = _locale.localeconv
        if self.ctx.swarm.get('numeric_locale') == 'de':
            conv = dict(real_conv(), decimal_point=',', thousands_sep='.', grouping=[3, 3, 0],
                        mon_decimal_point=',', mon_thousands_sep='.')
            _locale.localeconv = lambda: dict(conv)
            self.ctx.probe('comma-decimal-locale')
        try:
            return ('ok', fn())
        except SimCrash as e:
            return ('crash', e)
        except OSError as e:
            return ('oserror', e)
        except UnicodeDecodeError as e:
            return ('refused', e)
        finally:
            _locale.localeconv = real_conv
            fs.uninstall()
            self.clock.uninstall()
            self._fault_used = fs.last_fault()
            self._dates = sorted(set(t.strftime('%Y%m%d') for t in self.clock.log))
            fs.disarm()

    def _refused_ok(self, st, what):
        """A file written under another locale's encoding may be refused by a UTF-8 reader - loudly.  Nothing else may."""
        if st != 'refused':
            return False
        if self.ctx.swarm.get('fs_write_encoding', 'utf-8') == 'utf-8':
            raise Violation('op-must-succeed', '%s: read_thermdat raised UnicodeDecodeError on a UTF-8 file' % what)
        self.ctx.probe('cross-encoding-read-refused')
        return True

    def _write_clean_and_verify(self, a, pname, what):
        """An un-faulted write must be acknowledged, complete, and read back exactly."""
        fs = self.fs
        date8 = self._date8()
        st, val = self._with_seams(lambda: self.real(self._call_write, a, fs.path(pname), _what='write_thermdat'), None)
        if st != 'ok':
            raise Violation('op-must-succeed', '%s: un-faulted write_thermdat raised %r' % (what, val))
        if val is not None:
            raise Violation('write-return', '%s: write_thermdat(filename=...) returned %s' % (what, type(val).__name__))
        text = fs.durable(pname)
        if text is None:
            raise Violation('acknowledged-write-complete', '%s: acknowledged write left no file' % what)
        self._check_layout(text, a, a['newline'], what, date8)
        st, got = self._with_seams(lambda: self.real(self.th.read_thermdat, fs.path(pname), format='list',
                                                     _what='read_thermdat of a file pMuTT just wrote',
                                                     _allowed=(UnicodeDecodeError,)), None)
        if self._refused_ok(st, what):
            return
        if st != 'ok':
            raise Violation('op-must-succeed', '%s: reading back raised %r' % (what, got))
        self._check_read(got, self._expected(a), 'list', what)
        if a.get('regen'):
            # second generation: what was read is written again and must still say the same thing
            self.ctx.probe('second-generation')
            self.clock.advance(1)
            date8 = self._date8()
            a2 = dict(a, species=self._expected(a), supp=None, supp_txt=None)
            st, val = self._with_seams(lambda: self.real(
                self.th.write_thermdat, got, filename=fs.path('_gen2.dat'), write_date=a['write_date'],
                newline=a['newline'], _what='write_thermdat of species read from a thermdat file'), None)
            if st != 'ok':
                raise Violation('op-must-succeed', '%s: writing the species just read raised %r' % (what, val))
            self._check_layout(fs.durable('_gen2.dat'), a2, a['newline'], what + ' (second generation)', date8)
            st, got2 = self._with_seams(lambda: self.real(self.th.read_thermdat, fs.path('_gen2.dat'), format='list',
                                                          _what='read_thermdat of the second-generation file',
                                                          _allowed=(UnicodeDecodeError,)), None)
            if self._refused_ok(st, what):
                return
            if st != 'ok':
                raise Violation('op-must-succeed', '%s: reading the second generation raised %r' % (what, got2))
            self._check_read(got2, self._expected(a), 'list', what + ' (second generation)')

    def _op_write(self, a, fault):
        ctx, fs = self.ctx, self.fs
        path = a['path']
        self.padded.discard(path)
        before = fs.durable(path)
        prev = self.ref.get(path)
        if prev and prev[0] == 'ok':
            ctx.probe('overwrite-smaller' if len(a['species']) < len(prev[1]) else 'overwrite-larger')
        if path in self.failed_last:
            ctx.probe('write-after-failed-write')
        sh = self.shape.get(path)
        if sh and fault is None and sh['n'] == len(a['species']) and sh['write_date'] == a['write_date'] and \
                sh['supp_txt'] == a.get('supp_txt') and sh['newline'] == a['newline'] and not a.get('supp'):
            ctx.probe('same-length-overwrite')
        if fault is not None and fault.get('persistent'):
            ctx.probe('persistent-fault')
        if fault is None:
            self._write_clean_and_verify(a, path, 'write %s' % path)
            if path in self.failed_last:
                ctx.probe('recovery-after-fault')
            self.failed_last.discard(path)
            self.ref[path] = ('ok', self._expected(a))
            self.ack_text[path] = fs.durable(path)
            self.shape[path] = {'n': len(a['species']), 'write_date': a['write_date'], 'supp_txt': a.get('supp_txt'),
                                'newline': a['newline']} if not a.get('supp') else None
            self.history.append((ctx.step, path, 'ack'))
            return 'ack %d' % len(a['species'])
        date8 = self._date8()
        if fault['kind'] == 'alloc_error':
            self.shape[path] = None
            out = FileKit.write_alloc(self, path, lambda fn: self.real(self._call_write, a, fn, _what='write_thermdat (counting)'),
                                      lambda fn: self._call_write(a, fn), lambda: self._op_write(a, None),
                                      lambda text: self._check_layout(text, a, a['newline'], 'write %s' % path, date8),
                                      'write_thermdat', self._expected(a), fault)
            self.history.append((ctx.step, path, out))
            return out
        st, val = self._with_seams(lambda: self.real(self._call_write, a, fs.path(path), _what='write_thermdat',
                                                     _allowed=(OSError,)), fault)
        used = self._fault_used
        fired = bool(used and used.get('fired'))
        kind = fault['kind']
        if not fired:
            ctx.probe('fault-did-not-fire')
            if st != 'ok':
                raise Violation('op-must-succeed', 'write %s raised %r although no fault fired' % (path, val))
            text = fs.durable(path)
            self._check_layout(text, a, a['newline'], 'write %s' % path, date8)
            self.ref[path] = ('ok', self._expected(a))
            self.ack_text[path] = text
            self.failed_last.discard(path)
            return 'ack (fault not reached)'
        if st == 'ok':
            # the call was acknowledged although the disk failed underneath it: it must then be complete
            text = fs.durable(path)
            try:
                if text is None:
                    raise Violation('layout', 'no file')
                self._check_layout(text, a, a['newline'], 'write %s' % path, date8)
            except Violation as v:
                raise Violation('fault-must-be-signalled',
                                'write_thermdat returned normally although %s fired; file on disk is incomplete (%s)' % (
                                    kind, v.message[:200]))
            self.ref[path] = ('ok', self._expected(a))
            self.ack_text[path] = text
            return 'ack despite fault'
        if kind.startswith('crash'):
            if st != 'crash':
                raise Violation('fault-must-be-signalled', '%s fired but the call ended with %r' % (kind, val))
        else:
            if st != 'oserror':
                raise Violation('fault-must-be-signalled', '%s fired but the call ended with %s %r' % (kind, st, val))
        after = fs.durable(path)
        if kind in ('open_error', 'crash_pre_open'):
            if after != before:
                raise Violation('failed-open-leaves-content', '%s on %s changed the file although open never succeeded' % (
                    kind, path))
        else:
            self.ref[path] = ('undefined',)
            self.ack_text.pop(path, None)
        self.failed_last.add(path)
        self.history.append((ctx.step, path, 'fail'))
        return '%s %s' % (kind, st)

    def _op_write_text(self, a):
        fs = self.fs
        date8 = self._date8()
        st, text = self._with_seams(lambda: self.real(self._call_write, a, None, _what='write_thermdat(filename=None)'),
                                    None)
        if st != 'ok':
            raise Violation('op-must-succeed', 'write_thermdat(filename=None) raised %r' % (text,))
        if not isinstance(text, str):
            raise Violation('write-return', 'write_thermdat(filename=None) returned %s' % type(text).__name__)
        if fs.opens and self._fault_used is not None:
            pass
        self._check_layout(text, a, '\n', 'returned text', date8)
        # the returned text, stored by the caller, must read back too
        with REAL_OPEN(fs.path('_text.dat'), 'w', newline='') as f:
            f.write(text)
        st, got = self._with_seams(lambda: self.real(self.th.read_thermdat, fs.path('_text.dat'),
                                                     _what='read_thermdat of returned text'), None)
        if st != 'ok':
            raise Violation('op-must-succeed', 'reading the returned text raised %r' % (got,))
        self._check_read(got, self._expected(a), 'list', 'returned text')
        return len(text)

    def _op_read(self, a, fault):
        ctx, fs = self.ctx, self.fs
        path = a['path']
        state = self.ref.get(path)
        before = fs.durable(path)
        if a['format'] == 'tuple':
            ctx.probe('tuple-read')
        if a['format'] == 'dict':
            ctx.probe('dict-read')
        if before is None:
            ctx.probe('read-absent')
            st, val = self._with_seams(lambda: self.th.read_thermdat(fs.path(path), format=a['format']), None)
            if st != 'oserror':
                raise Violation('read-absent-raises', 'reading a file that does not exist ended with %s' % st)
            return 'absent'
        torn = state is None or state[0] != 'ok'
        if torn:
            ctx.probe('read-of-torn-file')

        def call():
            try:
                return ('value', self.th.read_thermdat(fs.path(path), format=a['format']))
            except (OSError, UnicodeDecodeError):
                raise
            except Exception as e:       # a torn file may make the parser raise anything
                return ('exc', e)
        st, val = self._with_seams(call, fault)
        used = self._fault_used
        fired = bool(used and used.get('fired'))
        if fs.durable(path) != before:
            raise Violation('read-does-not-write', 'read_thermdat changed %s on disk' % path)
        if fired:
            if st != 'oserror':
                raise Violation('fault-must-be-signalled', 'read fault %s fired but read_thermdat ended with %s' % (
                    fault['kind'], st if st != 'ok' else val[0]))
            return 'read fault signalled'
        if fault is not None:
            ctx.probe('fault-did-not-fire')
        if torn:
            return 'torn: not judged'
        if self._refused_ok(st, 'read %s' % path):
            return 'refused (encoding)'
        if path in self.padded and st == 'ok' and val[0] == 'exc':
            self.ctx.probe('padded-file-refused')          # loudly: allowed; silently reading something else is not
            return 'padded file refused'
        if st != 'ok' or val[0] != 'value':
            e = val if st != 'ok' else val[1]
            raise Violation('op-must-succeed', 'reading the acknowledged file %s raised %s: %s' % (
                path, type(e).__name__, str(e)[:200]))
        if path in self.padded:
            self.ctx.probe('read-of-padded-file')
        self._check_read(val[1], state[1], a['format'], 'read %s' % path)
        return 'read %d' % len(state[1])

    def _op_write_enum(self, a):
        """Every single-fault placement on this write, each followed by recovery."""
        fs = self.fs
        pname = '_enum.dat'
        n = 0
        # a clean write first gives the text length for absolute offsets
        self._write_clean_and_verify(a, pname, 'enum baseline')
        L = len(fs.durable(pname))
        placements = [{'kind': 'open_error', 'errno': 'ENOSPC'}, {'kind': 'crash_pre_open'}, {'kind': 'crash_post_open'}]
        for k in (0, 1, 80, L // 2, max(L - 1, 0)):
            placements.append({'kind': 'write_error', 'k': k, 'errno': 'ENOSPC'})
            placements.append({'kind': 'crash_mid_write', 'k': k})
        placements.append({'kind': 'write_error', 'k': L, 'errno': 'EIO', 'at_end': True})
        for k in (0.0, 0.5, 1.0):
            placements.append({'kind': 'close_error', 'k': k})
            placements.append({'kind': 'crash_pre_close', 'k': k})
        for f in placements:
            b = dict(a, path=pname)
            self._op_write(b, dict(f))
            self._write_clean_and_verify(a, pname, 'recovery after %s' % f['kind'])
            self.ctx.probe('recovery-after-fault')
            self.failed_last.discard(pname)
            n += 1
        self.ref.pop(pname, None)
        return n

    def finish(self):
        # history: every acknowledged, non-superseded write is still readable
        fs = self.fs
        for path, state in sorted(self.ref.items()):
            if state[0] != 'ok' or path.startswith('_'):
                continue
            st, got = self._with_seams(lambda: self.real(self.th.read_thermdat, fs.path(path),
                                                         _what='final read of acknowledged file',
                                                         _allowed=(UnicodeDecodeError,)), None)
            if self._refused_ok(st, 'final read %s' % path):
                continue
            if st != 'ok':
                raise Violation('acknowledged-write-readable', 'final read of %s raised %r' % (path, got))
            self._check_read(got, state[1], 'list', 'final read %s' % path)

    def abstract_state(self):
        st = []
        for p in sorted(self.ctx.swarm['paths']):
            s = self.ref.get(p)
            if s is None:
                st.append('absent')
            elif s[0] != 'ok':
                st.append('undefined')
            else:
                n = len(s[1])
                st.append(('ok', 1 if n == 1 else 2 if n <= 4 else 3 if n <= 20 else 4, p in self.failed_last))
        return st

    # ------------------------------------------------------------------ shrink
    def simplify(self, op):
        a = op['args']
        if op['op'] in ('write', 'write_text', 'write_enum'):
            sp = a['species']
            if len(sp) > 1:
                yield {**op, 'args': {**a, 'species': sp[:len(sp) // 2]}}
                yield {**op, 'args': {**a, 'species': sp[len(sp) // 2:]}}
                for i in range(min(len(sp), 12)):
                    yield {**op, 'args': {**a, 'species': sp[:i] + sp[i + 1:]}}
            if a.get('supp'):
                yield {**op, 'args': {**a, 'supp': None}}
            if a.get('supp_txt'):
                yield {**op, 'args': {**a, 'supp_txt': None}}
            if a.get('regen'):
                yield {**op, 'args': {**a, 'regen': False}}
            if a['newline'] != '\n':
                yield {**op, 'args': {**a, 'newline': '\n'}}
            if a['as'] != 'list':
                yield {**op, 'args': {**a, 'as': 'list'}}
            if op['op'] == 'write_enum':
                yield {**op, 'op': 'write'}
            for i, d in enumerate(sp[:6]):
                simple = dict(d)
                simple['a_low'] = [float(j + 1) for j in range(7)]
                simple['a_high'] = [float(j + 8) for j in range(7)]
                if simple != d:
                    yield {**op, 'args': {**a, 'species': sp[:i] + [simple] + sp[i + 1:]}}
                simple = dict(d, T_low=300.0, T_mid=1000.0, T_high=3000.0)
                if simple != d:
                    yield {**op, 'args': {**a, 'species': sp[:i] + [simple] + sp[i + 1:]}}
                if len(d['elements']) > 1:
                    for j in range(len(d['elements'])):
                        simple = dict(d, elements=d['elements'][:j] + d['elements'][j + 1:])
                        if any(n > 0 for _, n in simple['elements']):
                            yield {**op, 'args': {**a, 'species': sp[:i] + [simple] + sp[i + 1:]}}
                if d['notes']:
                    yield {**op, 'args': {**a, 'species': sp[:i] + [dict(d, notes=None)] + sp[i + 1:]}}
                if len(d['name']) > 3 and not any(k in d['name'] for k in KEYWORDS):
                    nm = d['name'][:3]
                    if nm not in [x['name'] for x in sp]:
                        yield {**op, 'args': {**a, 'species': sp[:i] + [dict(d, name=nm)] + sp[i + 1:]}}
        elif op['op'] == 'read':
            if a['format'] != 'list':
                yield {**op, 'args': {**a, 'format': 'list'}}
