"""World registry: property id -> (module, class)."""
import importlib

REGISTRY = {
    'C01': ('simlab.worlds.c01', 'WorldC01'),
    'C05': ('simlab.worlds.c05', 'WorldC05'),
    'C06': ('simlab.worlds.c06', 'WorldC06'),
    'C07': ('simlab.worlds.c07', 'WorldC07'),
    'C08': ('simlab.worlds.c08', 'WorldC08'),
    'C10': ('simlab.worlds.c10', 'WorldC10'),
    'C11': ('simlab.worlds.c11', 'WorldC11'),
    'C13': ('simlab.worlds.c13', 'WorldC13'),
    'C16': ('simlab.worlds.c16', 'WorldC16'),
    'C17': ('simlab.worlds.c17', 'WorldC17'),
}


import os as _os
REGISTRY = {k: v for k, v in REGISTRY.items()
            if _os.path.exists(_os.path.join(_os.path.dirname(__file__), v[0].rsplit('.', 1)[1] + '.py'))}


def load(prop):
    mod, cls = REGISTRY[prop]
    return getattr(importlib.import_module(mod), cls)
