"""World C13: empirical species with attached correction models, over construct /
attach / reorder / copy / reload / evaluate histories with caller lists shared
between constructors."""
import copy
import json
import math

from ..core import World, Violation, Skip
from ..filekit import side_stream

H2O_LOW = [4.19864056E+00, -2.03643410E-03, 6.52040211E-06, -5.48797062E-09, 1.77197817E-12,
           -3.02937267E+04, -8.49032208E-01]
H2O_HIGH = [3.03399249E+00, 2.17691804E-03, -1.64072518E-07, -9.70419870E-11, 1.68200992E-14,
            -3.00042971E+04, 4.96677010E+00]
N9_A = [2.210371497E+04, -3.818461820E+02, 6.082738360E+00, -8.530914410E-03, 1.384646189E-05,
        -9.625793620E-09, 2.519705809E-12, 7.108460860E+02, -1.076003744E+01]
SHO_A = [30.09200, 6.832514, 6.793435, -2.534480, 0.082139, -250.8810, 223.3967, -241.8264]
NAMES_J = ['CO*', 'O*', 'H*']
PHASES = ['g', 'gas', 'G', 's', 'S', None]


def is_gas(phase):
    return phase is not None and phase.lower() in ('g', 'gas')


class WorldC13(World):
    PROP = 'C13'
    RUNS = {'quick': 24000, 'thorough': 500000}
    WALL = {'quick': 50, 'thorough': 560}
    STATE_CHANGING = ('mklist', 'new', 'attach', 'reorder', 'copy', 'reload')
    STATE_RULE = 'per species: (class, gas?, number of pressure adjustments, number of coverage models, shares its caller list)'
    PROBES = ('gas-species-from-shared-list', 'nongas-after-gas-same-list', 'padj-disabled', 'padj-preattached', 'padj-in-dict-form', 'integer-temperatures', 'attach-in-place', 'dimensional-getters',
              'array-T-with-cov', 'two-or-more-models', 'reload-with-cov', 'reload-cycles>=2', 'copy-then-attach',
              'per-species-coverage-block', 'shomate-with-models', 'nasa9-with-models', 'reorder-with-two')
    REAL = ('pmutt.empirical.EmpiricalBase / GasPressureAdj', 'pmutt.empirical.nasa.Nasa / Nasa9 / SingleNasa9',
            'pmutt.empirical.shomate.Shomate', 'pmutt.mixture._get_mix_quantity', 'pmutt.mixture.cov.PiecewiseCovEffect',
            'pmutt.io.json encoder / hook', 'copy, json')
    SIMULATED = ('1-3 clients constructing and editing species over a shared pool of caller-owned model lists',)
    ASSUMPTIONS = ('the bare polynomial value is taken from a twin species built from the same coefficients with no '
                   'models (C02, not C13, judges the polynomial itself)',
                   'a coverage model\'s contribution is computed from its definition (zero at zero coverage, the listed slope '
                   'on each listed interval, continuous), not taken from the model\'s own getter')
    MAX_STEPS = 60

    # ------------------------------------------------------------------ gen
    def gen_swarm(self, rng, tier):
        return {
            'n_clients': rng.randint(1, 3),
            'max_species': rng.randint(1, 5),
            'share_lists': rng.random() < 0.6,
            'classes': rng.choice([['Nasa'], ['Nasa9'], ['Shomate'], ['Nasa', 'Nasa9', 'Shomate'],
                                   ['Nasa', 'Shomate']]),
            'w_eval': rng.choice([2, 4]),
            'w_edit': rng.choice([0, 1, 2]),
            'w_copy': rng.choice([0, 1]),
            'w_reload': rng.choice([0, 1, 2]),
            'arrays': rng.random() < 0.7,
            'disable_padj': rng.random() < 0.3,
        }

    def n_steps(self, rng, swarm):
        return rng.randint(6, 30)

    def setup(self, swarm):
        import numpy as np
        import pmutt.empirical as emp
        import pmutt.empirical.nasa as nasa
        import pmutt.empirical.shomate as sho
        import pmutt.mixture.cov as cov
        import pmutt.io.json as pj
        self.np, self.emp, self.nasa, self.sho, self.cov, self.pj = np, emp, nasa, sho, cov, pj
        self.lists = {}      # id -> real caller-owned list (or None)
        self.lref = {}       # id -> intended contents: list of model descriptors
        self.sp = {}         # id -> real species
        self.bare = {}       # id -> twin species without models
        self.sref = {}       # id -> dict(cls, phase, models=[descriptors], from_list, padj_expected)
        self.models = {}     # descriptor key -> real model object as created by the owner

    def _mk_model_desc(self, rng):
        if rng.random() < 0.3:
            return {'k': 'P'}
        n = rng.randint(1, 3)
        iv = [0.0] + sorted(set(round(rng.uniform(0.05, 0.95), 3) for _ in range(n - 1)))
        return {'k': 'cov', 'j': rng.choice(NAMES_J), 'iv': iv,
                'sl': [round(rng.uniform(-30, 30), 3) for _ in iv]}

    def gen_op(self, rng):
        sw = self.ctx.swarm
        c = rng.randrange(sw['n_clients'])
        if not self.lists or (len(self.lists) < 3 and rng.random() < 0.15):
            n = rng.choice([0, 1, 1, 2, 2, 3, 4])
            return {'c': c, 'op': 'mklist', 'args': {'id': len(self.lists), 'none': rng.random() < 0.15,
                                                     'models': [self._mk_model_desc(rng) for _ in range(n)]}}
        if len(self.sp) < sw['max_species'] and (not self.sp or rng.random() < 0.35):
            cls = rng.choice(sw['classes'])
            lid = rng.choice(sorted(self.lists))
            used = any(r['from_list'] == lid for r in self.sref.values())
            if used and not sw['share_lists']:
                return {'c': c, 'op': 'mklist', 'args': {'id': len(self.lists), 'none': False,
                                                         'models': [self._mk_model_desc(rng)
                                                                    for _ in range(rng.randint(0, 3))]}}
            return {'c': c, 'op': 'new', 'args': {
                'id': len(self.sp), 'cls': cls, 'phase': rng.choice(PHASES), 'list': lid,
                'padj': not (sw['disable_padj'] and rng.random() < 0.6),
                'scale': [round(rng.uniform(0.5, 1.5), 4) for _ in range(3)],
                'segments': rng.randint(1, 3), 'pdict': rng.random() < 0.25}}
        k = rng.choice(sorted(self.sp))
        kinds = (['eval'] * sw['w_eval'] + ['attach', 'reorder'] * sw['w_edit'] + ['copy'] * sw['w_copy'] +
                 ['reload'] * sw['w_reload'])
        kind = rng.choice(kinds)
        if kind == 'attach' and len(self.sref[k]['models']) >= 4:
            kind = 'eval'
        if kind == 'copy' and len(self.sp) >= 6:
            kind = 'eval'
        if kind == 'attach':
            return {'c': c, 'op': 'attach', 'args': {'id': k, 'model': self._mk_model_desc(rng),
                                                     'inplace': rng.random() < 0.4}}
        if kind == 'reorder':
            return {'c': c, 'op': 'reorder', 'args': {'id': k, 'how': rng.choice(['reverse', 'rotate'])}}
        if kind == 'copy':
            return {'c': c, 'op': 'copy', 'args': {'id': k, 'new': len(self.sp), 'deep': rng.random() < 0.5}}
        if kind == 'reload':
            return {'c': c, 'op': 'reload', 'args': {'id': k, 'via': rng.choice(['from_dict', 'hook']),
                                                     'cycles': rng.choice([1, 1, 2, 3, 4])}}
        r = self.sref[k]
        lo, hi = r['T_low'], r['T_high']
        if sw['arrays'] and rng.random() < 0.5:
            n = rng.choice([1, 2, 3, 5, 17, 50])
            T = [round(rng.uniform(lo, hi), 2) for _ in range(n)]
        else:
            T = round(rng.uniform(lo, hi), 2)
        if rng.random() < 0.2 and r['cls'] != 'Nasa9':
            # whole-number temperatures, as typed or from np.arange: an integer array, an int scalar.  (Not for Nasa9: its
            # bare polynomial raises "Integers to negative integer powers are not allowed" for integer arrays - loud, and
            # the bare polynomial is C02's subject, not C13's.)
            T = [int(round(t)) for t in T] if isinstance(T, list) else int(round(T))
        cond = {}
        if rng.random() < 0.7:
            cond['P'] = rng.choice([1.0, round(10 ** rng.uniform(-3, 2), 5)])
        if rng.random() < 0.4:
            cond['x'] = rng.choice([round(rng.uniform(0, 1), 3)] * 4 + [0.0, 1.0])       # (a clean surface, a full one)
        for j in NAMES_J:
            if rng.random() < 0.4:
                cond[j + '_kwargs'] = {'x': rng.choice([round(rng.uniform(0, 1), 3)] * 4 + [0.0, 1.0])}
        side = side_stream(rng)
        if isinstance(T, list) and len(T) >= 2 and side.random() < 0.2:
            # a heating / cooling cycle: up and down again, first and last temperature the same
            up = T[:25]
            T = up + up[-2::-1]
        if len(cond) > 1 and side.random() < 0.5:
            # keyword order is the caller's business: a per-species block may come before the general value it overrides
            keys = list(cond)
            side.shuffle(keys)
            cond = {k_: cond[k_] for k_ in keys}
        return {'c': c, 'op': 'eval', 'args': {'id': k, 'T': T, 'cond': cond,
                                               'q': rng.choice(['CpoR', 'HoRT', 'SoR', 'GoRT', 'all'])}}

    # ------------------------------------------------------------------ apply
    def _model(self, d):
        if d['k'] == 'P':
            return self.emp.GasPressureAdj()
        return self.cov.PiecewiseCovEffect(name_i='self', name_j=d['j'], intervals=list(d['iv']),
                                           slopes=list(d['sl']))

    def _coeffs(self, a):
        s = a['scale']
        if a['cls'] == 'Nasa':
            lo = [H2O_LOW[0] * s[0]] + [v * s[1] for v in H2O_LOW[1:5]] + [H2O_LOW[5] * s[2], H2O_LOW[6] * s[0]]
            hi = [H2O_HIGH[0] * s[0]] + [v * s[1] for v in H2O_HIGH[1:5]] + [H2O_HIGH[5] * s[2], H2O_HIGH[6] * s[0]]
            return {'T_low': 200.0, 'T_mid': 1000.0, 'T_high': 3500.0, 'a_low': lo, 'a_high': hi}
        if a['cls'] == 'Nasa9':
            n = int(a.get('segments', 1))
            edges = [200.0, 1000.0, 3000.0, 6000.0][:n + 1]
            segs = []
            for i in range(n):
                segs.append((edges[i], edges[i + 1], [v * s[i % 3] for v in N9_A]))
            return {'segs': segs}
        return {'T_low': 298.0, 'T_high': 1700.0, 'a': [v * s[i % 3] for i, v in enumerate(SHO_A)]}

    def _construct(self, a, co, misc, padj, phase):
        name = 'sp%d' % a['id']
        kw = dict(name=name, phase=phase, elements={'H': 2, 'O': 1}, misc_models=misc, add_gas_P_adj=padj)
        if a['cls'] == 'Nasa':
            return self.nasa.Nasa(T_low=co['T_low'], T_mid=co['T_mid'], T_high=co['T_high'],
                                  a_low=list(co['a_low']), a_high=list(co['a_high']), **kw)
        if a['cls'] == 'Nasa9':
            nasas = [self.nasa.SingleNasa9(T_low=lo, T_high=hi, a=self.np.array(aa)) for lo, hi, aa in co['segs']]
            return self.nasa.Nasa9(nasas=nasas, **kw)
        return self.sho.Shomate(T_low=co['T_low'], T_high=co['T_high'], a=self.np.array(co['a']),
                                units='J/mol/K', **kw)

    def apply(self, op):
        a = op['args']
        name = op['op']
        ctx = self.ctx
        if name == 'mklist':
            if a['id'] in self.lists:
                raise Skip()
            if a.get('none'):
                self.lists[a['id']] = None
                self.lref[a['id']] = None
            else:
                self.lists[a['id']] = [self._model(d) for d in a['models']]
                self.lref[a['id']] = [dict(d) for d in a['models']]
            out = len(a['models'])
        elif name == 'new':
            if a['id'] in self.sp or a['list'] not in self.lists:
                raise Skip()
            co = self._coeffs(a)
            lst = self.lists[a['list']]
            intended = [dict(d) for d in (self.lref[a['list']] or [])]
            others = [r for r in self.sref.values() if r['from_list'] == a['list']]
            gas = is_gas(a['phase'])
            if others and gas:
                ctx.probe('gas-species-from-shared-list')
            if others and not gas and any(r['gas'] for r in others):
                ctx.probe('nongas-after-gas-same-list')
            if any(d['k'] == 'P' for d in intended):
                ctx.probe('padj-preattached')
            if gas and not a['padj']:
                ctx.probe('padj-disabled')
            shared = a['list']
            if a.get('pdict') and gas and a['padj'] and any(d['k'] == 'P' for d in intended):
                # the serialised form of the adjustment, as in a species record copied from to_dict() output: the
                # constructor documents that it recognises it for a gas species
                ctx.probe('padj-in-dict-form')
                first = [d['k'] for d in intended].index('P')   # (only the first: a second one is the caller's own)
                lst = [{'class': "<class 'pmutt.empirical.GasPressureAdj'>"} if i == first else m
                       for i, m in enumerate(lst)]
                shared = None
            sp = self.real(self._construct, a, co, lst, a['padj'], a['phase'], _what='%s constructor' % a['cls'])
            self.sp[a['id']] = sp
            self.bare[a['id']] = self._construct(a, co, None, True, None)
            models = intended
            if gas and a['padj'] and not any(d['k'] == 'P' for d in models):
                models = models + [{'k': 'P'}]
            T_low = co['segs'][0][0] if a['cls'] == 'Nasa9' else co['T_low']
            T_high = co['segs'][-1][1] if a['cls'] == 'Nasa9' else co['T_high']
            self.sref[a['id']] = {'cls': a['cls'], 'phase': a['phase'], 'gas': gas, 'models': models,
                                  'from_list': shared, 'T_low': T_low, 'T_high': T_high, 'copied': False}
            out = len(models)
        elif name == 'attach':
            sp, r = self._get(a['id'])
            m = self._model(a['model'])
            cur = sp.misc_models
            if a.get('inplace') and isinstance(cur, list) and not r.get('aliased'):
                # species.misc_models.append(model): the list the species holds is its own (constructors copy what they
                # are handed), so only this species changes
                cur.append(m)
                ctx.probe('attach-in-place')
            else:
                # the owner assigns a new list: unambiguous whether or not lists are shared
                sp.misc_models = (list(cur) if cur is not None else []) + [m]
            r['models'] = r['models'] + [dict(a['model'])]
            r['from_list'] = None
            if r.get('copied'):
                ctx.probe('copy-then-attach')
            out = len(r['models'])
        elif name == 'reorder':
            sp, r = self._get(a['id'])
            cur = sp.misc_models
            if cur is None or len(cur) < 2:
                raise Skip()
            ctx.probe('reorder-with-two')
            new = list(cur)
            if a['how'] == 'reverse':
                new.reverse()
            else:
                new = new[1:] + new[:1]
            sp.misc_models = new
            r['from_list'] = None
            out = len(new)
        elif name == 'copy':
            sp, r = self._get(a['id'])
            if a['new'] in self.sp:
                raise Skip()
            new = self.real(copy.deepcopy if a['deep'] else copy.copy, sp, _what='copy')
            self.sp[a['new']] = new
            self.bare[a['new']] = self.bare[a['id']]
            if not a['deep']:
                r['aliased'] = True        # copy.copy shares the list object: that is the caller's choice, not pMuTT's
            self.sref[a['new']] = dict(r, models=list(r['models']), copied=True,
                                       from_list=None if a['deep'] else r['from_list'])
            out = a['new']
        elif name == 'reload':
            sp, r = self._get(a['id'])
            if any(d['k'] == 'cov' for d in r['models']):
                ctx.probe('reload-with-cov')
            if a['cycles'] >= 2:
                ctx.probe('reload-cycles>=2')
            new = sp
            for _ in range(int(a['cycles'])):
                if a['via'] == 'hook':
                    text = self.real(json.dumps, new, cls=self.pj.pmuttEncoder, _what='json.dumps(species)')
                    new = self.real(json.loads, text, object_hook=self.pj.json_to_pmutt, _what='json.loads(species)')
                else:
                    d = self.real(new.to_dict, _what='to_dict')
                    d = json.loads(json.dumps(d))
                    new = self.real(type(sp).from_dict, d, _what='%s.from_dict' % r['cls'])
            if type(new) is not type(sp):
                raise Violation('reload-class', 'reload of %s gave %s' % (type(sp).__name__, type(new).__name__))
            self.sp[a['id']] = new
            r['from_list'] = None
            if r['gas'] and not any(d['k'] == 'P' for d in r['models']):
                # the user's "disabled" choice is not part of the serialised form; the statement does not say
                # whether a reload keeps it, so either outcome is accepted and followed
                mm = new.misc_models or []
                if sum(1 for m in mm if isinstance(m, self.emp.GasPressureAdj)) == 1:
                    r['models'] = r['models'] + [{'k': 'P'}]
            out = a['cycles']
        elif name == 'eval':
            sp, r = self._get(a['id'])
            out = self._eval(a['id'], sp, r, a['T'], a['cond'], a['q'])
        else:
            raise Skip()
        for k in sorted(self.sp):
            self._check_padj(k)
        return out

    def _get(self, k):
        if k not in self.sp:
            raise Skip()
        return self.sp[k], self.sref[k]

    # ------------------------------------------------------------------ oracle
    def _check_padj(self, k):
        sp, r = self.sp[k], self.sref[k]
        want = sum(1 for d in r['models'] if d['k'] == 'P')
        mm = sp.misc_models
        have = 0 if mm is None else sum(1 for m in mm if isinstance(m, self.emp.GasPressureAdj))
        if have != want:
            raise Violation('padj-count', 'species %d (%s, phase %r) carries %d pressure adjustments, '
                            'its owner attached/enabled %d (models in object: %s)' % (
                                k, r['cls'], r['phase'], have, want,
                                [type(m).__name__ for m in (mm or [])]))
        ncov = 0 if mm is None else len(mm) - have
        wcov = sum(1 for d in r['models'] if d['k'] == 'cov')
        if ncov != wcov:
            raise Violation('model-count', 'species %d (%s) carries %d non-pressure models, owner attached %d: %s' % (
                k, r['cls'], ncov, wcov, [type(m).__name__ for m in (mm or [])]))
        # behavioural form: S(P) - S(1 bar) = -n ln P
        T = 0.5 * (r['T_low'] + r['T_high'])
        s1 = self.real(sp.get_SoR, T=T, P=1.0, _what='get_SoR')
        s2 = self.real(sp.get_SoR, T=T, P=7.0, _what='get_SoR')
        if not abs((float(s2) - float(s1)) + want * math.log(7.0)) <= 1e-9:
            raise Violation('padj-entropy', 'species %d: S(7 bar) - S(1 bar) = %r, expected %r' % (
                k, float(s2) - float(s1), -want * math.log(7.0)))

    def _x_for(self, j, cond):
        blk = cond.get(j + '_kwargs', {})
        if 'x' in blk:
            self.ctx.probe('per-species-coverage-block')
            return blk['x']
        return cond.get('x', 0.0)

    def _contrib(self, r, q, T, cond):
        tot = 0.0
        for d in r['models']:
            if d['k'] == 'P':
                if q == 'SoR':
                    tot += -math.log(cond.get('P', 1.0))
            else:
                if q == 'HoRT':
                    # the excess energy of a coverage effect, from its definition: zero at zero coverage, the listed slope
                    # on each listed interval (kcal/mol per unit coverage), continuous
                    x = self._x_for(d['j'], cond)
                    e, iv, sl = 0.0, list(d['iv']), list(d['sl'])
                    for i_, (lo_, s_) in enumerate(zip(iv, sl)):
                        hi_ = iv[i_ + 1] if i_ + 1 < len(iv) else float('inf')
                        if x > lo_:
                            e += s_ * (min(x, hi_) - lo_)
                    tot += e / (self.cov.c.R('kcal/mol/K') * T)
        return tot

    def _eval(self, k, sp, r, T, cond, q):
        np = self.np
        ctx = self.ctx
        qs = ['CpoR', 'HoRT', 'SoR', 'GoRT'] if q == 'all' else [q]
        is_arr = isinstance(T, list)
        Ts = T if is_arr else [T]
        nmod = len(r['models'])
        ncov = sum(1 for d in r['models'] if d['k'] == 'cov')
        if is_arr and ncov:
            ctx.probe('array-T-with-cov')
        if nmod >= 2:
            ctx.probe('two-or-more-models')
        if nmod and r['cls'] == 'Shomate':
            ctx.probe('shomate-with-models')
        if nmod and r['cls'] == 'Nasa9':
            ctx.probe('nasa9-with-models')
        bare = self.bare[k]
        worst = 0.0
        for qq in qs:
            want = []
            for Ti in Ts:
                if qq == 'GoRT':
                    b = float(bare.get_HoRT(T=Ti)) - float(bare.get_SoR(T=Ti))
                    w = b + self._contrib(r, 'HoRT', Ti, cond) - self._contrib(r, 'SoR', Ti, cond)
                else:
                    b = float(getattr(bare, 'get_' + qq)(T=Ti))
                    w = b + self._contrib(r, qq, Ti, cond)
                want.append(w)
            arg = np.array(Ts) if is_arr else T
            if isinstance(Ts[0], int):
                ctx.probe('integer-temperatures')
            kw = json.loads(json.dumps(cond))
            got = self.real(getattr(sp, 'get_' + qq), T=arg, _what='get_%s(%s T, %d models)' % (
                qq, 'array' if is_arr else 'scalar', nmod), **kw)
            g = np.atleast_1d(np.asarray(got, dtype=float))
            if is_arr and g.shape != (len(Ts),):
                raise Violation('array-shape', 'species %d get_%s with %d temperatures returned shape %r' % (
                    k, qq, len(Ts), g.shape))
            if not is_arr and g.shape != (1,):
                raise Violation('array-shape', 'species %d get_%s with scalar T returned shape %r' % (k, qq, g.shape))
            for Ti, gv, wv in zip(Ts, g.tolist(), want):
                tol = 1e-9 * (1.0 + abs(wv))
                err = abs(gv - wv)
                worst = max(worst, err / tol)
                if not err <= tol:
                    raise Violation('bare-plus-models',
                                    'species %d (%s, %s T, models %s) get_%s(T=%r, %s) = %r; bare polynomial + sum of '
                                    'attached models = %r' % (k, r['cls'], 'array' if is_arr else 'scalar',
                                                              [d['k'] + d.get('j', '') for d in r['models']], qq, Ti,
                                                              cond, gv, wv))
            # the same value in units: x R (heat capacity, entropy) or x R T (enthalpy, Gibbs energy), element-wise
            name_ = {'CpoR': 'Cp', 'HoRT': 'H', 'SoR': 'S', 'GoRT': 'G'}[qq]
            unit = ('J/mol/K', 'cal/mol/K', 'kJ/mol/K')[len(Ts) % 3] if qq in ('CpoR', 'SoR') else \
                ('kJ/mol', 'kcal/mol', 'J/mol')[len(Ts) % 3]
            Rv = self.cov.c.R(unit if unit.endswith('/K') else unit + '/K')
            gotd = self.real(getattr(sp, 'get_' + name_), T=arg, units=unit, _what='get_%s(units=%r)' % (name_, unit), **kw)
            gd = np.atleast_1d(np.asarray(gotd, dtype=float))
            if gd.shape != g.shape:
                raise Violation('array-shape', 'species %d get_%s(units) returned shape %r for %d temperatures' % (k, name_, gd.shape, len(Ts)))
            for Ti, gv, wv in zip(Ts, gd.tolist(), want):
                wd = wv * Rv * (1.0 if unit.endswith('/K') else Ti)
                if not abs(gv - wd) <= 1e-9 * (abs(Rv) * (1.0 if unit.endswith('/K') else Ti)) * (1.0 + abs(wv)):
                    raise Violation('bare-plus-models', 'species %d (%s, models %s) get_%s(T=%r, units=%r, %s) = %r; (bare polynomial + '
                                    'attached models) x R%s = %r' % (k, r['cls'], [d['k'] + d.get('j', '') for d in r['models']],
                                                                     name_, Ti, unit, cond, gv, '' if unit.endswith('/K') else ' T', wd))
            ctx.probe('dimensional-getters')
        if worst > 0.1:
            ctx.near_miss['bare-plus-models'] += 1
        return round(worst, 6)

    def abstract_state(self):
        st = []
        for k in sorted(self.sp):
            r = self.sref[k]
            np_ = sum(1 for d in r['models'] if d['k'] == 'P')
            st.append((r['cls'], r['gas'], np_, len(r['models']) - np_, r['from_list'] is not None))
        return st

    def simplify(self, op):
        a = op['args']
        if op['op'] == 'mklist':
            for i in range(len(a['models'])):
                yield {**op, 'args': {**a, 'models': a['models'][:i] + a['models'][i + 1:]}}
            for i, d in enumerate(a['models']):
                if d['k'] == 'cov' and len(d['iv']) > 1:
                    d2 = {**d, 'iv': d['iv'][:1], 'sl': d['sl'][:1]}
                    yield {**op, 'args': {**a, 'models': a['models'][:i] + [d2] + a['models'][i + 1:]}}
        elif op['op'] == 'eval':
            if isinstance(a['T'], list) and len(a['T']) > 1:
                yield {**op, 'args': {**a, 'T': a['T'][:1]}}
                yield {**op, 'args': {**a, 'T': a['T'][:2]}}
                yield {**op, 'args': {**a, 'T': a['T'][0]}}
            for key in list(a['cond']):
                c2 = {k: v for k, v in a['cond'].items() if k != key}
                yield {**op, 'args': {**a, 'cond': c2}}
            if a['q'] == 'all':
                for qq in ('HoRT', 'SoR', 'CpoR', 'GoRT'):
                    yield {**op, 'args': {**a, 'q': qq}}
        elif op['op'] == 'new':
            if a['scale'] != [1.0, 1.0, 1.0]:
                yield {**op, 'args': {**a, 'scale': [1.0, 1.0, 1.0]}}
            if a.get('segments', 1) > 1:
                yield {**op, 'args': {**a, 'segments': 1}}
        elif op['op'] == 'reload':
            if a['cycles'] > 1:
                yield {**op, 'args': {**a, 'cycles': 1}}
