"""World C10: References under append / extend / pop / remove / replace / refit histories,
shared by several target species."""
import json
import math

from ..core import World, Violation, Skip

DESC = ['H', 'O', 'C', 'N', 'Pt']
R_EV = 8.617333262e-5      # eV/K  (kB), used only to build plausible numbers


class WorldC10(World):
    PROP = 'C10'
    RUNS = {'quick': 8000, 'thorough': 150000}
    WALL = {'quick': 50, 'thorough': 560}
    STATE_CHANGING = ('mkref', 'mkrefs', 'append', 'extend', 'pop', 'remove', 'setitem', 'fit', 'mktarget', 'reload', 'clone',
                      'clear', 'dictcopy', 'badcall')
    STATE_RULE = 'per References object: (members, rank of its descriptor matrix, fitted for the current list?, targets sharing it)'
    PROBES = ('fit-full-rank-unique', 'fit-overdetermined', 'fit-rank-deficient', 'stale-offsets-evaluated',
              'two-targets-share-references', 'target-with-absent-descriptor', 'different-T_ref', 'given-offset',
              'custom-descriptor', 'reload-target', 'refit-after-append', 'refit-after-pop', 'setitem-then-fit',
              'use_references-off', 'references-off-with-element-entropies', 'extend-with-one-shot-iterable', 'references-cloned', 'offsets-cleared',
              'in-memory-dict-copy-edited', 'rejected-call-then-valid-calls', 'evaluated-next-to-T_ref',
              'temperature-in-the-species-block')
    REAL = ('pmutt.empirical.references.Reference / References (all list methods, fit_HoRT_offset, getters)',
            'pmutt.statmech.StatMech.get_quantity references branch', 'pmutt.io.json')
    SIMULATED = ('1-3 clients editing shared References objects and evaluating targets that share them',)
    ASSUMPTIONS = ('a reference species\' own model getter defines its DFT enthalpy (C01 judges the mode formulas)',)
    MAX_STEPS = 50

    # ------------------------------------------------------------------ gen
    def gen_swarm(self, rng, tier):
        nd = rng.randint(1, 5)
        return {'n_clients': rng.randint(1, 3), 'descriptors': DESC[:nd],
                'descriptor_attr': rng.choice(['elements', 'elements', 'elements', 'groups']),
                'T_ref_jitter': rng.random() < 0.2, 'fractional': rng.random() < 0.3,
                'w_hist': rng.choice([0, 0, 1]), 'max_refs': rng.randint(1, 8),
                'w_edit': rng.choice([1, 2, 3]), 'w_eval': rng.choice([2, 3]), 'w_fit': rng.choice([1, 2])}

    def n_steps(self, rng, swarm):
        return rng.randint(8, 30)

    def setup(self, swarm):
        import numpy as np
        import pmutt.statmech as sm
        import pmutt.statmech.elec as elec
        import pmutt.statmech.vib as vib
        import pmutt.statmech.trans as trans
        import pmutt.empirical.references as refs
        import pmutt.io.json as pj
        import pmutt.constants as c
        self.np, self.sm, self.elec, self.vib, self.trans, self.refs, self.pj, self.c = np, sm, elec, vib, trans, refs, pj, c
        self.attr = swarm.get('descriptor_attr', 'elements')
        self.ref = {}       # id -> real Reference
        self.refd = {}      # id -> descriptor dict of that reference (model side)
        self.rs = {}        # id -> real References
        self.members = {}   # id -> list of ref ids (mirror of the list)
        self.fitted = {}    # id -> tuple of ref ids the offsets were last fitted for (None: given offsets)
        self.plan = []
        self.off_seen = {}  # id -> offsets as last seen (they may change only through the object's own operations)
        self.tg = {}        # id -> real target StatMech
        self.tgm = {}       # id -> {'rs': refs id, 'desc': dict, 'bare': twin without references}

    def _comp(self, rng):
        ds = self.ctx.swarm['descriptors']
        comp = {}
        for d in ds:
            if rng.random() < 0.55:
                comp[d] = rng.choice([1, 1, 2, 2, 3, 4, 6])
                if self.ctx.swarm.get('fractional') and rng.random() < 0.4:
                    comp[d] = rng.choice([0.5, 1.5, 2.5, 0.25, 1.333])     # Fe2O3 as FeO1.5, per-site coverages, ...
        if not comp:
            comp[rng.choice(ds)] = rng.choice([1, 2])
        return comp

    def gen_op(self, rng):
        sw = self.ctx.swarm
        c = rng.randrange(sw['n_clients'])
        if self.plan:
            return dict(self.plan.pop(0), c=c)
        nd = len(sw['descriptors'])
        if not self.rs and not self.ref and nd >= 2 and rng.random() < 0.15:
            # scripted: as many references as descriptors, one of them a genuine combination of two others (CH3OH, C2H4 and
            # C3H8O over C, H, O): square and rank deficient without any duplicated or scaled row
            ds = list(sw['descriptors'][:rng.randint(2, min(nd, 4))])
            rows = []
            for i_ in range(len(ds) - 1):
                rows.append({d: rng.randint(0, 3) for d in ds})
                rows[-1][ds[i_ % len(ds)]] = rows[-1][ds[i_ % len(ds)]] or 1
            a_, b_ = rng.choice([(1, 1), (1, 2), (2, 1)])
            r1, r2 = rows[0], rows[-1]
            rows.append({d: a_ * r1.get(d, 0) + b_ * r2.get(d, 0) for d in ds})
            rows = [{d: n for d, n in r_.items() if n} for r_ in rows]
            ops = []
            for i_, comp in enumerate(rows):
                ops.append({'op': 'mkref', 'args': {'id': i_, 'desc': comp, 'T_ref': 298.15,
                                                    'HoRT_ref': round(rng.uniform(-200, 20), 4),
                                                    'E': round(rng.uniform(-40, -1), 4), 'wn': []}})
            ops.append({'op': 'mkrefs', 'args': {'id': 0, 'members': list(range(len(rows))), 'offset': None}})
            self.plan = ops[1:]
            return dict(ops[0], c=c)
        if len(self.ref) < 2 or (len(self.ref) < sw['max_refs'] + 2 and rng.random() < 0.2):
            T_ref = 298.15 + (rng.choice([0.0, 0.0, round(rng.uniform(-2, 2), 2)]) if sw['T_ref_jitter'] else 0.0)
            return {'c': c, 'op': 'mkref', 'args': {'id': len(self.ref), 'desc': self._comp(rng), 'T_ref': T_ref,
                                                    'HoRT_ref': round(rng.uniform(-200, 20), 4),
                                                    'E': round(rng.uniform(-40, -1), 4),
                                                    'wn': [round(rng.uniform(100, 4000), 1) for _ in range(rng.randint(0, 3))]}}
        if not self.rs or (len(self.rs) < 3 and rng.random() < 0.1):
            k = rng.randint(1, min(len(self.ref), sw['max_refs']))
            mem = rng.sample(sorted(self.ref), k)
            off = None
            if rng.random() < 0.12:
                off = {d: round(rng.uniform(-50, 50), 3) for d in sw['descriptors'] if rng.random() < 0.8}
            return {'c': c, 'op': 'mkrefs', 'args': {'id': len(self.rs), 'members': mem, 'offset': off}}
        rid = rng.choice(sorted(self.rs))
        if not self.tg or (len(self.tg) < 4 and rng.random() < 0.15):
            comp = self._comp(rng)
            if rng.random() < 0.2:
                comp['Xx'] = rng.choice([1, 2])        # descriptor absent from every reference
            return {'c': c, 'op': 'mktarget', 'args': {'id': len(self.tg), 'rs': rid, 'desc': comp,
                                                       'E': round(rng.uniform(-40, -1), 4),
                                                       'wn': [round(rng.uniform(100, 4000), 1)
                                                              for _ in range(rng.randint(0, 3))],
                                                       'trans': rng.random() < 0.3}}
        kinds = ['edit'] * sw['w_edit'] + ['eval'] * sw['w_eval'] + ['fit'] * sw['w_fit'] + ['reload'] + \
            ['clone', 'clear', 'dictcopy', 'badcall'] * sw.get('w_hist', 0)
        kind = rng.choice(kinds)
        mem = self.members[rid]
        if kind == 'clone' and len(self.rs) < 5:
            return {'c': c, 'op': 'clone', 'args': {'rs': rid, 'id': max(self.rs) + 1}}
        if kind == 'clear':
            return {'c': c, 'op': 'clear', 'args': {'rs': rid}}
        if kind == 'dictcopy':
            return {'c': c, 'op': 'dictcopy', 'args': {'rs': rid, 'then': rng.choice(['clear', 'fit', 'poke'])}}
        if kind == 'badcall' and self.tg:
            return {'c': c, 'op': 'badcall', 'args': {'tg': rng.choice(sorted(self.tg)),
                                                      'how': rng.choice(['no-T', 'no-such-quantity'])}}
        if kind in ('clone', 'clear', 'dictcopy', 'badcall'):
            kind = 'eval'
        if kind == 'edit':
            choices = ['append', 'extend', 'setitem']
            if len(mem) > 1:
                choices += ['pop', 'remove']
            if len(mem) >= sw['max_refs']:
                choices = [x for x in choices if x not in ('append', 'extend')] or ['setitem']
            e = rng.choice(choices)
            if e == 'append':
                return {'c': c, 'op': 'append', 'args': {'rs': rid, 'ref': rng.choice(sorted(self.ref))}}
            if e == 'extend':
                return {'c': c, 'op': 'extend', 'args': {'rs': rid, 'refs': rng.sample(sorted(self.ref),
                                                                                      rng.randint(1, min(2, len(self.ref)))),
                                                         'as': rng.choice(['list', 'tuple', 'generator', 'iter'])}}
            if e == 'pop':
                return {'c': c, 'op': 'pop', 'args': {'rs': rid, 'i': rng.choice([-1, rng.randrange(len(mem))])}}
            if e == 'remove':
                return {'c': c, 'op': 'remove', 'args': {'rs': rid, 'i': rng.randrange(len(mem))}}
            return {'c': c, 'op': 'setitem', 'args': {'rs': rid, 'i': rng.randrange(len(mem)),
                                                      'ref': rng.choice(sorted(self.ref))}}
        if kind == 'fit':
            return {'c': c, 'op': 'fit', 'args': {'rs': rid}}
        tid = rng.choice(sorted(self.tg))
        if kind == 'reload':
            return {'c': c, 'op': 'reload', 'args': {'tg': tid}}
        T = round(rng.uniform(50, 3000), 2)
        near = None
        if rng.random() < 0.3:
            near = rng.choice([0.0, 1e-3, -1e-3, 2e-3, -2.5e-3, 0.01, -0.05])      # K from the reference temperature
        return {'c': c, 'op': 'eval', 'args': {'tg': tid, 'T': T, 'T2': round(rng.uniform(50, 3000), 2), 'near_T_ref': near,
                                               'T_via_block': rng.random() < 0.25}}

    # ------------------------------------------------------------------ helpers
    def _modes(self, a, with_trans=False):
        kw = {'elec_model': self.elec.GroundStateElec(potentialenergy=a['E'], spin=0)}
        if a.get('wn'):
            kw['vib_model'] = self.vib.HarmonicVib(vib_wavenumbers=list(a['wn']))
        if with_trans:
            kw['trans_model'] = self.trans.FreeTrans(n_degrees=3, molecular_weight=18.0)
        return kw

    def _desc_of(self, obj):
        return getattr(obj, self.attr)

    def _check_fit(self, rid, what):
        """Fit event: residual orthogonal to the descriptor matrix; zero when the references determine the offsets."""
        np, ctx = self.np, self.ctx
        rs = self.rs[rid]
        mem = self.members[rid]
        if [id(r) for r in rs.references] != [id(self.ref[i]) for i in mem]:
            raise Violation('list-mirror', '%s: References holds %d members, the mirrored list %d' % (
                what, len(rs.references), len(mem)))
        keys = sorted(set(k for i in mem for k in self.refd[i]))
        A = np.array([[self.refd[i].get(k, 0) for k in keys] for i in mem], dtype=float)
        dft = np.array([float(self.ref[i].model.get_HoRT(T=self.ref[i].T_ref)) for i in mem])
        exp = np.array([float(self.ref[i].HoRT_ref) for i in mem])
        off = rs.offset
        if not isinstance(off, dict):
            raise Violation('offset-form', '%s: offset is %s, not a dictionary of descriptors' % (what, type(off).__name__))
        o = np.array([float(off.get(k, 0.0)) for k in keys])
        extra = [k for k in off if k not in keys and abs(float(off[k])) > 0]
        if extra:
            ctx.probe('offsets-for-descriptors-outside-the-references')     # not demanded by the statement: not judged
        r = (dft - A.dot(o)) - exp
        scale = max(1.0, float(np.max(np.abs(dft))), float(np.max(np.abs(exp))))
        g = A.T.dot(r)
        tol = 1e-8 * scale * max(1.0, float(np.abs(A).sum()))
        if float(np.max(np.abs(g))) > tol:
            raise Violation('residual-orthogonal', '%s: A^T r = %r for references %r (offsets %r)' % (
                what, g.tolist(), [self.refd[i] for i in mem], off))
        rank = int(np.linalg.matrix_rank(A))
        Ts = [self.ref[i].T_ref for i in mem]
        same_T = max(Ts) - min(Ts) < 1e-9
        if not same_T:
            ctx.probe('different-T_ref')
        if rank == len(mem):
            ctx.probe('fit-full-rank-unique' if rank == len(keys) else 'fit-rank-deficient')
            if float(np.max(np.abs(r))) > 1e-8 * scale:
                raise Violation('references-reproduced', '%s: residuals %r although the %d references determine the offsets' % (
                    what, r.tolist(), len(mem)))
            if same_T:
                # through the public path: a species identical to reference i, carrying these References
                for i in mem:
                    ref = self.ref[i]
                    twin = self.sm.StatMech(name='twin', references=rs, **self._twin_modes[i])
                    setattr(twin, self.attr, dict(self.refd[i]))
                    got = float(self.real(twin.get_HoRT, T=ref.T_ref, _what='get_HoRT of a reference species'))
                    if abs(got - float(ref.HoRT_ref)) > 1e-8 * scale:
                        raise Violation('references-reproduced',
                                        '%s: reference %r has experimental H/RT %r at %r K, adjusted species reports %r' % (
                                            what, self.refd[i], ref.HoRT_ref, ref.T_ref, got))
        else:
            ctx.probe('fit-overdetermined' if rank == len(keys) else 'fit-rank-deficient')
        self.fitted[rid] = tuple(mem)

    def _check_target(self, tid, T, T2=None, via_block=False):
        np, ctx = self.np, self.ctx
        t, m = self.tg[tid], self.tgm[tid]
        rs = t.references
        if rs is None:
            raise Violation('references-kept', 'target %d was built with a References object; it now carries none' % tid)
        off = rs.offset if isinstance(rs.offset, dict) else {}
        if m['rs'] is not None and m['rs'] in self.rs:
            # the species was handed THAT References object: what is fitted there is what the species applies
            owner = self.rs[m['rs']]
            off = owner.offset if isinstance(owner.offset, dict) else {}
            if rs is not owner:
                ctx.probe('species-holds-another-references-object')
        desc = m['desc']
        if any(k not in off for k in desc):
            ctx.probe('target-with-absent-descriptor')
        rid = m['rs']
        if rid is not None and self.fitted.get(rid) is not None and tuple(self.members[rid]) != self.fitted[rid]:
            ctx.probe('stale-offsets-evaluated')
        sharers = [k for k, mm in self.tgm.items() if mm['rs'] == rid and rid is not None]
        if len(sharers) > 1:
            ctx.probe('two-targets-share-references')
        s = sum(float(off.get(k, 0.0)) * n for k, n in desc.items())
        T_ref = float(rs.T_ref)
        bare = m['bare']
        import warnings
        with warnings.catch_warnings():
            warnings.simplefilter('ignore')
            for q in ('HoRT', 'GoRT', 'SoR', 'CpoR', 'CvoR'):
                if via_block:
                    # the temperature arrives in the species' own keyword block (overriding a general one)
                    ctx.probe('temperature-in-the-species-block')
                    on = float(self.real(getattr(t, 'get_' + q), _what='get_%s(T in the species block)' % q,
                                         **{'T': 123.0, t.name + '_kwargs': {'T': T}}))
                else:
                    on = float(self.real(getattr(t, 'get_' + q), T=T, _what='get_%s' % q))
                offv = float(self.real(getattr(t, 'get_' + q), T=T, use_references=False, _what='get_%s(use_references=False)' % q))
                b = float(getattr(bare, 'get_' + q)(T=T))
                ctx.probe('use_references-off')
                if offv != b and abs(offv - b) > 1e-12 * max(1.0, abs(b)):
                    raise Violation('references-off-equals-bare', 'get_%s(use_references=False) = %r, the same species without '
                                    'references gives %r' % (q, offv, b))
                want = -s * T_ref / T if q in ('HoRT', 'GoRT') else 0.0
                tol = 1e-9 * max(1.0, abs(on), abs(want))
                if abs((on - offv) - want) > tol:
                    raise Violation('adjustment-linear', 'get_%s at T=%r: with references - without = %r, expected '
                                    '-sum(offset*composition)*T_ref/T = %r (offsets %r, composition %r)' % (
                                        q, T, on - offv, want, off, desc))
            if T2:
                R = self.c.R('kJ/mol/K')
                g1 = float(t.get_G(T=T, units='kJ/mol')) - float(t.get_G(T=T, units='kJ/mol', use_references=False))
                if abs(g1 - (-s * T_ref * R)) > 1e-8 * max(1.0, abs(s * T_ref * R)):
                    raise Violation('adjustment-T-independent', 'G(on)-G(off) = %r kJ/mol at %r K; expected %r' % (
                        g1, T, -s * T_ref * R))
                # the same switch together with the element-entropy option (Gibbs energy of formation)
                try:
                    gs = float(t.get_G(T=T, units='kJ/mol', S_elements=True)) - \
                        float(t.get_G(T=T, units='kJ/mol', S_elements=True, use_references=False))
                    gs2 = float(t.get_GoRT(T=T, S_elements=True)) - float(t.get_GoRT(T=T, S_elements=True, use_references=False))
                except (KeyError, TypeError):
                    gs = None           # an element without a tabulated entropy, a species without a composition
                if gs is not None:
                    ctx.probe('references-off-with-element-entropies')
                    if abs(gs - (-s * T_ref * R)) > 1e-8 * max(1.0, abs(s * T_ref * R)) or \
                            abs(gs2 - (-s * T_ref / T)) > 1e-9 * max(1.0, abs(s * T_ref / T)):
                        raise Violation('adjustment-T-independent', 'with S_elements=True: G(on)-G(off) = %r kJ/mol (G/RT: %r) at %r K; '
                                        'expected %r (%r)' % (gs, gs2, T, -s * T_ref * R, -s * T_ref / T))
                h1 = float(t.get_H(T=T, units='kJ/mol')) - float(t.get_H(T=T, units='kJ/mol', use_references=False))
                h2 = float(t.get_H(T=T2, units='kJ/mol')) - float(t.get_H(T=T2, units='kJ/mol', use_references=False))
                want = -s * T_ref * R
                if abs(h1 - h2) > 1e-8 * max(1.0, abs(h1)) or abs(h1 - want) > 1e-8 * max(1.0, abs(want)):
                    raise Violation('adjustment-T-independent', 'H(on)-H(off) = %r kJ/mol at %r K and %r at %r K; expected %r' % (
                        h1, T, h2, T2, want))
        return round(s, 9)

    # ------------------------------------------------------------------ apply
    def apply(self, op):
        touched = op['args'].get('rs') if op['op'] in ('append', 'extend', 'pop', 'remove', 'setitem', 'fit', 'mkrefs') else None
        if op['op'] == 'mkrefs':
            touched = op['args'].get('id')
        return self._apply(op, touched)

    def _apply(self, op, touched):
        a = op['args']
        name = op['op']
        ctx = self.ctx
        np = self.np
        if name == 'mkref':
            if a['id'] in self.ref:
                raise Skip()
            model = self.sm.StatMech(name='m%d' % a['id'], **self._modes(a))
            kw = {'elements': dict(a['desc'])} if self.attr == 'elements' else {'elements': {'H': 1}}
            ref = self.real(self.refs.Reference, name='ref%d' % a['id'], T_ref=a['T_ref'], HoRT_ref=a['HoRT_ref'],
                            model=model, _what='Reference constructor', **kw)
            if self.attr != 'elements':
                setattr(ref, self.attr, dict(a['desc']))
                ctx.probe('custom-descriptor')
            self.ref[a['id']] = ref
            self.refd[a['id']] = dict(a['desc'])
            if not hasattr(self, '_twin_modes'):
                self._twin_modes = {}
            self._twin_modes[a['id']] = self._modes(a)
            return 'ref'
        if name == 'mkrefs':
            if a['id'] in self.rs or not a['members'] or any(i not in self.ref for i in a['members']):
                raise Skip()
            lst = [self.ref[i] for i in a['members']]
            kw = {'descriptor': self.attr}
            if a.get('offset') is not None:
                ctx.probe('given-offset')
                kw['offset'] = dict(a['offset'])
            rs = self.real(self.refs.References, references=lst, _what='References constructor', **kw)
            self.rs[a['id']] = rs
            self.members[a['id']] = list(a['members'])
            if a.get('offset') is None:
                self._check_fit(a['id'], 'construction')
            else:
                self.fitted[a['id']] = None
                if rs.offset != a['offset']:
                    raise Violation('given-offset-kept', 'References(offset=%r) holds %r' % (a['offset'], rs.offset))
            return len(lst)
        if name in ('append', 'extend', 'pop', 'remove', 'setitem', 'fit'):
            rid = a['rs']
            if rid not in self.rs:
                raise Skip()
            rs, mem = self.rs[rid], self.members[rid]
            if name == 'append':
                if a['ref'] not in self.ref:
                    raise Skip()
                self.real(rs.append, self.ref[a['ref']], _what='References.append')
                mem.append(a['ref'])
            elif name == 'extend':
                if any(i not in self.ref for i in a['refs']):
                    raise Skip()
                seq = [self.ref[i] for i in a['refs']]
                how = a.get('as', 'list')     # list.extend takes any iterable; so does References.extend
                if how == 'tuple':
                    seq = tuple(seq)
                elif how == 'generator':
                    seq = (x for x in seq)
                    self.ctx.probe('extend-with-one-shot-iterable')
                elif how == 'iter':
                    seq = iter(seq)
                    self.ctx.probe('extend-with-one-shot-iterable')
                self.real(rs.extend, seq, _what='References.extend(%s)' % how)
                mem.extend(a['refs'])
            elif name == 'pop':
                if len(mem) <= 1 or not (-len(mem) <= a['i'] < len(mem)):
                    raise Skip()
                self.real(rs.pop, a['i'], _what='References.pop')
                mem.pop(a['i'])
            elif name == 'remove':
                if len(mem) <= 1 or not (0 <= a['i'] < len(mem)):
                    raise Skip()
                victim = mem[a['i']]
                first = next(j for j, x in enumerate(mem) if self.ref[x] == self.ref[victim])   # list.remove uses ==
                self.real(rs.remove, self.ref[victim], _what='References.remove')
                mem.pop(first)
            elif name == 'setitem':
                if not (0 <= a['i'] < len(mem)) or a['ref'] not in self.ref:
                    raise Skip()
                self.real(rs.__setitem__, a['i'], self.ref[a['ref']], _what='References.__setitem__')
                mem[a['i']] = a['ref']
                self._last_edit = 'setitem'
            else:
                prev = self.fitted.get(rid)
                if prev is not None and len(mem) > len(prev):
                    ctx.probe('refit-after-append')
                if prev is not None and len(mem) < len(prev):
                    ctx.probe('refit-after-pop')
                if getattr(self, '_last_edit', None) == 'setitem':
                    ctx.probe('setitem-then-fit')
                self.real(rs.fit_HoRT_offset, _what='fit_HoRT_offset')
                self._check_fit(rid, 'fit_HoRT_offset')
            if name != 'setitem':
                self._last_edit = name
            if len(rs) != len(mem) or [id(x) for x in rs.references] != [id(self.ref[i]) for i in mem]:
                raise Violation('list-mirror', 'after %s the References object lists %d members, expected %r' % (
                    name, len(rs), mem))
            out = len(mem)
        elif name == 'mktarget':
            if a['id'] in self.tg or a['rs'] not in self.rs:
                raise Skip()
            modes = self._modes(a, a.get('trans'))
            kw = {'elements': dict(a['desc'])} if self.attr == 'elements' else {}
            t = self.real(self.sm.StatMech, name='t%d' % a['id'], references=self.rs[a['rs']], _what='StatMech constructor',
                          **dict(modes, **kw))
            bare = self.sm.StatMech(name='t%d' % a['id'], **dict(self._modes(a, a.get('trans')), **kw))
            if self.attr != 'elements':
                setattr(t, self.attr, dict(a['desc']))
                setattr(bare, self.attr, dict(a['desc']))
            self.tg[a['id']] = t
            self.tgm[a['id']] = {'rs': a['rs'], 'desc': dict(a['desc']), 'bare': bare}
            out = 'target'
        elif name == 'reload':
            if a['tg'] not in self.tg or self.attr != 'elements':
                raise Skip()
            ctx.probe('reload-target')
            t, m = self.tg[a['tg']], self.tgm[a['tg']]
            before = [float(t.get_HoRT(T=400.0)), float(t.get_GoRT(T=400.0)), float(t.get_SoR(T=400.0))]
            text = self.real(json.dumps, t, cls=self.pj.pmuttEncoder, _what='json.dumps(target)')
            new = self.real(json.loads, text, object_hook=self.pj.json_to_pmutt, _what='json.loads(target)')
            after = [float(self.real(new.get_HoRT, T=400.0, _what='get_HoRT after reload')),
                     float(self.real(new.get_GoRT, T=400.0, _what='get_GoRT after reload')),
                     float(self.real(new.get_SoR, T=400.0, _what='get_SoR after reload'))]
            for x, y in zip(before, after):
                if abs(x - y) > 1e-10 * max(1.0, abs(x)):
                    raise Violation('reload-unchanged', 'referenced species reports %r after a JSON reload, %r before' % (
                        after, before))
            self.tg[a['tg']] = new
            m['rs'] = None           # the decoded species owns a private copy of the references
            out = 'reloaded'
        elif name == 'eval':
            if a['tg'] not in self.tg:
                raise Skip()
            T_ = a['T']
            if a.get('near_T_ref') is not None and self.tg[a['tg']].references is not None:
                T_ = float(self.tg[a['tg']].references.T_ref) + a['near_T_ref']
                ctx.probe('evaluated-next-to-T_ref')
            out = self._check_target(a['tg'], T_, a.get('T2'), via_block=bool(a.get('T_via_block')))
        elif name == 'clone':
            if a['rs'] not in self.rs or a['id'] in self.rs:
                raise Skip()
            src = self.rs[a['rs']]
            # a second References over the same reference species, started from the first one's offsets
            new = self.real(self.refs.References, references=list(src.references), offset=src.offset, descriptor=self.attr,
                            T_ref=src.T_ref, _what='References(offset=other.offset, references=list(other.references))')
            self.rs[a['id']] = new
            self.members[a['id']] = list(self.members[a['rs']])
            self.fitted[a['id']] = self.fitted.get(a['rs'])
            touched = a['id']
            ctx.probe('references-cloned')
            out = 'cloned'
        elif name == 'clear':
            if a['rs'] not in self.rs or not isinstance(self.rs[a['rs']].offset, dict):
                raise Skip()
            self.real(self.rs[a['rs']].clear_offset, _what='clear_offset')
            self.fitted[a['rs']] = None
            touched = a['rs']
            ctx.probe('offsets-cleared')
            out = 'cleared'
        elif name == 'dictcopy':
            if a['rs'] not in self.rs or not isinstance(self.rs[a['rs']].offset, dict):
                raise Skip()
            src = self.rs[a['rs']]
            before = dict(src.offset)
            d = self.real(src.to_dict, _what='References.to_dict')
            cp = self.real(self.refs.References.from_dict, d, _what='References.from_dict(other.to_dict())')
            # whatever is done to the copy, the object it was taken from keeps its offsets
            if a['then'] == 'clear':
                cp.clear_offset()
            elif a['then'] == 'fit' and cp.references and self.attr == 'elements':
                cp.pop()
                if cp.references:
                    cp.fit_HoRT_offset()
            elif isinstance(cp.offset, dict):
                for k_ in list(cp.offset):
                    cp.offset[k_] = cp.offset[k_] + 1.0
            ctx.probe('in-memory-dict-copy-edited')
            if src.offset != before:
                raise Violation('offsets-owned', 'offsets of a References object changed from %r to %r when its '
                                'from_dict(to_dict()) copy was edited (%s)' % (before, src.offset, a['then']))
            out = 'copied'
        elif name == 'badcall':
            if a['tg'] not in self.tg:
                raise Skip()
            t = self.tg[a['tg']]
            try:
                if a['how'] == 'no-T':
                    t.get_HoRT(use_references=False, T=None)
                else:
                    t.get_quantity('get_no_such_quantity', T=400.0, use_references=False)
            except Exception:
                ctx.probe('rejected-call-then-valid-calls')
            out = 'bad call'
        else:
            raise Skip()
        # offsets belong to their References object: nothing done to another object may change them
        for rid_, rs_ in sorted(self.rs.items()):
            cur = dict(rs_.offset) if isinstance(rs_.offset, dict) else rs_.offset
            if rid_ in self.off_seen and rid_ != touched and self.off_seen[rid_] != cur:
                raise Violation('offsets-owned', 'References %d went from offsets %r to %r during %s on another object' % (
                    rid_, self.off_seen[rid_], cur, name))
            self.off_seen[rid_] = cur
        for tid in sorted(self.tg):
            self._check_target(tid, 500.0)
        return out

    def abstract_state(self):
        np = self.np
        st = []
        for rid in sorted(self.rs):
            mem = self.members[rid]
            keys = sorted(set(k for i in mem for k in self.refd[i]))
            A = np.array([[self.refd[i].get(k, 0) for k in keys] for i in mem], dtype=float)
            st.append((len(mem), int(np.linalg.matrix_rank(A)), self.fitted.get(rid) == tuple(mem),
                       sum(1 for m in self.tgm.values() if m['rs'] == rid)))
        return st

    def simplify(self, op):
        a = op['args']
        if op['op'] == 'mkref':
            if a.get('wn'):
                yield {**op, 'args': {**a, 'wn': []}}
            if len(a['desc']) > 1:
                for k in a['desc']:
                    yield {**op, 'args': {**a, 'desc': {x: v for x, v in a['desc'].items() if x != k}}}
        elif op['op'] == 'mktarget':
            if a.get('wn'):
                yield {**op, 'args': {**a, 'wn': []}}
            if a.get('trans'):
                yield {**op, 'args': {**a, 'trans': False}}
        elif op['op'] == 'mkrefs':
            if len(a['members']) > 1:
                for i in range(len(a['members'])):
                    yield {**op, 'args': {**a, 'members': a['members'][:i] + a['members'][i + 1:]}}
        elif op['op'] == 'eval':
            if a.get('T2'):
                yield {**op, 'args': {**a, 'T2': None}}
