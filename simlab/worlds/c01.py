"""World C01: statistical-mechanical species under histories of parameter edits on mode objects
shared between species.  Thermodynamic identities, textbook closed forms and
"edited == freshly built" are evaluated after every step."""
import inspect
import math

from ..core import World, Violation, Skip

QS = ['CvoR', 'CpoR', 'UoRT', 'HoRT', 'SoR', 'FoRT', 'GoRT']
POINT_GROUPS = {'C1': 1, 'Cs': 1, 'C2': 2, 'C2v': 2, 'C3v': 3, 'Cinfv': 1, 'D2h': 4, 'D3h': 6, 'D5h': 10, 'Dinfh': 2,
                'D3d': 6, 'Td': 12, 'Oh': 24}
PARAMS = {
    'FreeTrans': ['n_degrees', 'molecular_weight'],
    'HarmonicVib': ['vib_wavenumbers', 'imaginary_substitute'],
    'QRRHOVib': ['vib_wavenumbers', 'Bav', 'v0', 'alpha', 'imaginary_substitute'],
    'EinsteinVib': ['einstein_temperature', 'interaction_energy'],
    'DebyeVib': ['debye_temperature', 'interaction_energy'],
    'RigidRotor': ['symmetrynumber', 'rot_temperatures', 'geometry'],
    'GroundStateElec': ['potentialenergy', 'spin'],
    'LSR': ['slope', 'intercept'],
    'ConstantMode': ['q', 'Cv', 'Cp', 'U', 'H', 'S', 'F', 'G'],
    'EmptyMode': [],
    'EmptyNucl': [],
}
SLOT_KINDS = {
    'trans': ['FreeTrans'] * 6 + ['EmptyMode'] * 3 + ['ConstantMode'],
    'vib': ['HarmonicVib'] * 4 + ['QRRHOVib', 'EinsteinVib', 'DebyeVib', 'EmptyMode'] * 2 + ['ConstantMode'],
    'rot': ['RigidRotor'] * 6 + ['EmptyMode'] * 3 + ['ConstantMode'],
    'elec': ['GroundStateElec'] * 5 + ['EmptyMode'] * 2 + ['LSR'] * 2 + ['ConstantMode'],
    'nucl': ['EmptyNucl'] * 4 + ['EmptyMode'] * 4 + ['ConstantMode'],
}


def _call(fn, **pool):
    """Call a getter with the subset of the pool its signature accepts."""
    sig = inspect.signature(fn)
    kw = {}
    has_var = False
    for p in sig.parameters.values():
        if p.kind == p.VAR_KEYWORD:
            has_var = True
        elif p.name in pool:
            kw[p.name] = pool[p.name]
    if has_var:
        kw = dict(pool)
    return fn(**kw)


class WorldC01(World):
    PROP = 'C01'
    RUNS = {'quick': 3000, 'thorough': 60000}
    WALL = {'quick': 50, 'thorough': 560}
    STATE_CHANGING = ('mkmode', 'mkspecies', 'edit', 'swap')
    STATE_RULE = 'per species: (mode classes in its five slots, modes shared with another species, edits since construction bucket)'
    PROBES = ('edit-imaginary-substitute', 'edit-wavenumbers', 'edit-wavenumbers-in-place', 'integer-wavenumbers', 'edit-spin', 'edit-qrrho-parameter', 'mode-shared-by-two-species', 'constant-mode-additivity-only', 'lsr-electronic-mode', 'textbook-harmonic-q-both-zeros', 'option-through-species', 'rot-temperatures-as-array', 'conditions-in-a-reused-dictionary',
              'mutator-raised-part-way', 'integer-temperature', 'rot-temperatures-from-moments', 'species-with-misc-models', 'dimensional-getters',
              'swap-mode', 'imaginary-mode-present', 'monatomic-rotor', 'linear-rotor', 'trans-1-or-2-dof', 'point-group-label',
              'debye-mode', 'einstein-mode', 'qrrho-mode', 'low-T-regime', 'high-T-regime', 'verbose-sum', 'pressure-shift',
              'textbook-harmonic', 'textbook-trans', 'textbook-rotor', 'textbook-elec', 'textbook-einstein', 'textbook-debye-Cv', 'textbook-qrrho', 'geometry-rigid-motion')
    REAL = ('pmutt.statmech.StatMech and every mode class (trans, vib, rot, elec, nucl)', 'pmutt._ModelBase.get_FoRT/get_GoRT',
            'pmutt.statmech.rot geometry helpers', 'ase molecule database (G2)')
    SIMULATED = ('1-3 clients editing public parameters of mode objects shared between species and evaluating them',)
    ASSUMPTIONS = ('physical constants are taken from pmutt.constants (C12 judges those)',
                   'temperature derivatives: 5-point stencil with one Richardson step, h = 0.02 T, rtol 1e-6')
    TRIGGERS = {
        'C01-monatomic-q': 'a monatomic RigidRotor is asked for its partition function',
        'C01-debye-entropy': 'the species contains a DebyeVib mode (only the dS/dT = Cp/T identity is withheld for it)',
    }
    MAX_STEPS = 50

    # ------------------------------------------------------------------ gen
    def gen_swarm(self, rng, tier):
        return {'n_clients': rng.randint(1, 3), 'n_species': rng.randint(1, 4), 'share': rng.random() < 0.6,
                'w_edit': rng.choice([1, 2, 3]), 'w_eval': rng.choice([1, 2]), 'w_swap': rng.choice([0, 1]),
                'geometry': rng.random() < 0.15, 'cond_dict': rng.random() < 0.3, 'w_bad': rng.choice([0.0, 0.0, 0.15])}

    def n_steps(self, rng, swarm):
        return rng.randint(8, 30)

    def setup(self, swarm):
        import numpy as np
        import pmutt.statmech as sm
        import pmutt.statmech.trans as trans
        import pmutt.statmech.vib as vib
        import pmutt.statmech.rot as rot
        import pmutt.statmech.elec as elec
        import pmutt.statmech.nucl as nucl
        import pmutt.constants as c
        self.np, self.sm, self.c = np, sm, c
        self.cls = {'FreeTrans': trans.FreeTrans, 'HarmonicVib': vib.HarmonicVib, 'QRRHOVib': vib.QRRHOVib,
                    'EinsteinVib': vib.EinsteinVib, 'DebyeVib': vib.DebyeVib, 'RigidRotor': rot.RigidRotor,
                    'GroundStateElec': elec.GroundStateElec, 'EmptyMode': sm.EmptyMode, 'EmptyNucl': nucl.EmptyNucl,
                    'ConstantMode': sm.ConstantMode}
        import pmutt.statmech.lsr as lsr
        self.cls['LSR'] = lsr.LSR
        self.rot = rot
        self.mode = {}     # id -> real mode object
        self.mk = {}       # id -> kind
        self.mp = {}       # id -> reference copy of the public parameters (what the owner set)
        self.sp = {}       # id -> real StatMech
        self.slots = {}    # id -> {slot: mode id}
        self.n_edits = 0
        self.cdict = {}    # species id -> the caller's reused conditions dictionary
        self.misc = {}     # species id -> parameter dicts of its misc models (user-set constant modes)

    def _gen_params(self, rng, kind):
        u = rng.uniform
        if kind == 'FreeTrans':
            return {'n_degrees': rng.choice([1, 2, 3, 3, 3]), 'molecular_weight': round(u(1, 500), 3)}
        if kind in ('HarmonicVib', 'QRRHOVib'):
            wn = [round(10 ** u(1, math.log10(4500)), 2) for _ in range(rng.randint(1, 6))]
            if rng.random() < 0.3:
                wn.insert(rng.randrange(len(wn) + 1), -round(u(50, 900), 2))
            if rng.random() < 0.2:
                wn = [int(round(w)) for w in wn]          # whole-number input, as typed from an output file
            p = {'vib_wavenumbers': wn, 'imaginary_substitute': rng.choice([None, None, round(u(10, 100), 1)])}
            if rng.random() < 0.25:
                p['wn_as'] = 'list'
            if kind == 'QRRHOVib':
                p.update({'Bav': rng.choice([1e-44, 2.5e-44]), 'v0': rng.choice([100.0, 50.0, 150.0]),
                          'alpha': rng.choice([4, 2, 6])})
            return p
        if kind == 'EinsteinVib':
            return {'einstein_temperature': round(u(50, 2000), 2), 'interaction_energy': round(u(-2, 0), 3)}
        if kind == 'DebyeVib':
            return {'debye_temperature': round(u(50, 2000), 2), 'interaction_energy': round(u(-2, 0), 3)}
        if kind == 'RigidRotor':
            geo = rng.choice(['monatomic', 'linear', 'nonlinear', 'nonlinear'])
            rt = {'monatomic': [], 'linear': [round(10 ** u(-2, 2), 4)],
                  'nonlinear': [round(10 ** u(-2, 2), 4) for _ in range(3)]}[geo]
            sym = rng.choice([1, 2, 3, 6, 12]) if rng.random() < 0.7 else rng.choice(sorted(POINT_GROUPS))
            out = {'symmetrynumber': sym, 'rot_temperatures': rt, 'geometry': geo}
            if rng.random() < 0.3:
                out['rt_as'] = 'array'
            return out
        if kind == 'GroundStateElec':
            return {'potentialenergy': round(u(-40, 0), 4), 'spin': rng.choice([0, 0.5, 1, 1.5, 2])}
        if kind == 'LSR':
            # linear-scaling electronic energy from numbers (kcal/mol): reference binding energy, slab and gas energies
            return {'slope': round(u(0, 1), 3), 'intercept': round(u(-10, 10), 3), 'reaction': round(u(-80, 0), 3),
                    'surf_species': round(u(-60, 0), 3), 'gas_species': round(u(-60, 0), 3)}
        if kind == 'ConstantMode':
            # user-set values: nothing ties them to each other, so only the additivity clause is judged
            return {'q': round(10 ** u(-2, 3), 4), 'Cv': round(u(0, 1e-3), 7), 'Cp': round(u(0, 1e-3), 7),
                    'U': round(u(-2, 2), 4), 'H': round(u(-2, 2), 4), 'S': round(u(0, 2e-3), 7), 'F': round(u(-2, 2), 4),
                    'G': round(u(-2, 2), 4)}
        return {}

    def gen_op(self, rng):
        sw = self.ctx.swarm
        c = rng.randrange(sw['n_clients'])
        if len(self.sp) < sw['n_species'] and (not self.sp or rng.random() < 0.3):
            slots = {}
            new = []
            for slot, kinds in SLOT_KINDS.items():
                cand = [i for i in sorted(self.mode) if self.mk[i] in kinds and self.mk[i] not in ('EmptyMode', 'EmptyNucl')]
                if sw['share'] and cand and rng.random() < 0.5:
                    slots[slot] = rng.choice(cand)
                else:
                    kind = rng.choice(kinds)
                    mid = len(self.mode) + len(new)
                    new.append({'id': mid, 'kind': kind, 'params': self._gen_params(rng, kind)})
                    slots[slot] = mid
            misc = []
            if rng.random() < 0.15:
                # user-set constant contributions attached as misc models (additivity clause only)
                misc = [self._gen_params(rng, 'ConstantMode') for _ in range(rng.randint(1, 3))]
            return {'c': c, 'op': 'mkspecies', 'args': {'id': len(self.sp), 'modes': new, 'slots': slots,
                                                        'name': 'sp%d' % len(self.sp), 'misc': misc}}
        if sw['geometry'] and rng.random() < 0.1:
            return {'c': c, 'op': 'geometry', 'args': {
                'mol': rng.choice(['H2O', 'CO2', 'CH4', 'NH3', 'C2H4', 'H2', 'CO', 'C2H6', 'CH3OH', 'N2', 'O3', 'C6H6', 'HCN']),
                'euler': [round(rng.uniform(0, 360), 2) for _ in range(3)],
                'shift': [round(rng.uniform(-5, 5), 3) for _ in range(3)], 'perm_seed': rng.randint(0, 10 ** 6)}}
        kinds = ['edit'] * sw['w_edit'] + ['eval'] * sw['w_eval'] + ['swap'] * sw['w_swap']
        kind = rng.choice(kinds)
        if kind == 'edit':
            cand = [i for i in sorted(self.mode) if PARAMS[self.mk[i]]]
            if cand:
                mid = rng.choice(cand)
                k = self.mk[mid]
                attr = rng.choice(PARAMS[k])
                newp = self._gen_params(rng, k)
                if k == 'RigidRotor' and attr in ('rot_temperatures', 'geometry'):
                    # geometry and rotational temperatures only make sense together
                    return {'c': c, 'op': 'edit', 'args': {'mode': mid, 'set': {'geometry': newp['geometry'],
                                                                                 'rot_temperatures': newp['rot_temperatures']}}}
                if k == 'QRRHOVib' and rng.random() < sw.get('w_bad', 0.0):
                    # an assignment the mode rejects (None), followed by putting the old value back
                    return {'c': c, 'op': 'edit', 'args': {'mode': mid, 'set': {}, 'rejected': rng.choice(['v0', 'alpha', 'Bav'])}}
                if attr == 'vib_wavenumbers' and rng.random() < 0.4:
                    n = len(self.mp[mid]['vib_wavenumbers'])
                    how = rng.choice([{'how': 'scale', 'f': rng.choice([0.96, 0.9614, 1.05])},
                                      {'how': 'item', 'i': rng.randrange(n), 'v': round(10 ** rng.uniform(1, 3.6), 2)}])
                    return {'c': c, 'op': 'edit', 'args': {'mode': mid, 'inplace': how, 'set': {}}}
                return {'c': c, 'op': 'edit', 'args': {'mode': mid, 'set': {attr: newp[attr]}}}
            kind = 'eval'
        if kind == 'swap' and self.sp:
            sid = rng.choice(sorted(self.sp))
            slot = rng.choice(sorted(SLOT_KINDS))
            kind2 = rng.choice(SLOT_KINDS[slot])
            mid = len(self.mode)
            return {'c': c, 'op': 'swap', 'args': {'species': sid, 'slot': slot,
                                                   'mode': {'id': mid, 'kind': kind2, 'params': self._gen_params(rng, kind2)}}}
        sid = rng.choice(sorted(self.sp))
        T = round(rng.choice([10 ** rng.uniform(math.log10(50), math.log10(5000)), rng.uniform(50, 5000)]), 2)
        if rng.random() < 0.2:
            T = int(round(T))            # a whole-number temperature typed as an int (300, not 300.0)
        return {'c': c, 'op': 'eval', 'args': {'species': sid, 'T': T, 'P': round(10 ** rng.uniform(-4, 3), 5),
                                               'P2': round(10 ** rng.uniform(-4, 3), 5)}}

    # ------------------------------------------------------------------ building
    def _build_mode(self, kind, params):
        p = dict(params)
        if kind in ('HarmonicVib', 'QRRHOVib'):
            if p.pop('wn_as', 'array') == 'list':
                p['vib_wavenumbers'] = list(p['vib_wavenumbers'])
            else:
                p['vib_wavenumbers'] = self.np.array(p['vib_wavenumbers'])
            if all(isinstance(w, int) for w in params['vib_wavenumbers']):
                self.ctx.probe('integer-wavenumbers')
        if kind == 'RigidRotor':
            if p.pop('rt_as', 'list') == 'array' and p['rot_temperatures']:
                p['rot_temperatures'] = self.np.array(p['rot_temperatures'], dtype=float)
                self.ctx.probe('rot-temperatures-as-array')
            else:
                p['rot_temperatures'] = list(p['rot_temperatures'])
        return self.cls[kind](**p)

    def _add_mode(self, md):
        if md['id'] in self.mode or md['kind'] not in self.cls:
            raise Skip()
        if md['kind'] == 'RigidRotor' and isinstance(md['params'].get('symmetrynumber'), str):
            self.ctx.probe('point-group-label')
        obj = self.real(self._build_mode, md['kind'], md['params'], _what='%s constructor with %r' % (md['kind'], md['params']))
        self.mode[md['id']] = obj
        self.mk[md['id']] = md['kind']
        self.mp[md['id']] = dict(md['params'])

    def _species_from(self, name, slots, fresh=False, misc=None):
        objs = {}
        for slot, mid in slots.items():
            objs[slot] = self._build_mode(self.mk[mid], self.mp[mid]) if fresh else self.mode[mid]
        mm = [self.cls['ConstantMode'](**p_) for p_ in misc] if misc else None
        return self.sm.StatMech(name=name, trans_model=objs['trans'], vib_model=objs['vib'], rot_model=objs['rot'],
                                elec_model=objs['elec'], nucl_model=objs['nucl'], misc_models=mm)

    # ------------------------------------------------------------------ apply
    def apply(self, op):
        a = op['args']
        name = op['op']
        ctx = self.ctx
        if name == 'mkspecies':
            if a['id'] in self.sp:
                raise Skip()
            for md in a['modes']:
                self._add_mode(md)
            if any(mid not in self.mode for mid in a['slots'].values()) or set(a['slots']) != set(SLOT_KINDS):
                raise Skip()
            self.sp[a['id']] = self.real(self._species_from, a['name'], a['slots'], misc=a.get('misc') or None,
                                         _what='StatMech constructor')
            self.slots[a['id']] = dict(a['slots'])
            self.misc[a['id']] = [dict(p_) for p_ in (a.get('misc') or [])]
            out = 'species'
        elif name == 'edit':
            if a['mode'] not in self.mode:
                raise Skip()
            m = self.mode[a['mode']]
            k = self.mk[a['mode']]
            for attr, val in a['set'].items():
                if attr not in PARAMS[k]:
                    raise Skip()
            if a.get('rejected'):
                if k != 'QRRHOVib' or a['rejected'] not in ('v0', 'alpha', 'Bav'):
                    raise Skip()
                try:
                    setattr(m, a['rejected'], None)
                except Exception:
                    ctx.probe('mutator-raised-part-way')
                # the caller notices and restores the value the mode had
                self.real(setattr, m, a['rejected'], self.mp[a['mode']][a['rejected']], _what='assigning %s back' % a['rejected'])
            if a.get('inplace'):
                # "model.vib_wavenumbers *= 0.96" and "w = model.vib_wavenumbers; w[i] = v; model.vib_wavenumbers = w":
                # the setter receives the object the getter returned, already changed
                h = a['inplace']
                if k not in ('HarmonicVib', 'QRRHOVib'):
                    raise Skip()
                cur = m.vib_wavenumbers
                if not (isinstance(cur, self.np.ndarray) and cur.dtype.kind == 'f'):
                    raise Skip()
                old = list(self.mp[a['mode']]['vib_wavenumbers'])
                if h['how'] == 'scale':
                    m.vib_wavenumbers *= h['f']
                    new = [float(w) * h['f'] for w in old]
                else:
                    if not 0 <= h['i'] < len(old):
                        raise Skip()
                    cur[h['i']] = h['v']
                    m.vib_wavenumbers = cur
                    new = [float(w) for w in old]
                    new[h['i']] = h['v']
                self.mp[a['mode']]['vib_wavenumbers'] = new
                ctx.probe('edit-wavenumbers-in-place')
            for attr, val in a['set'].items():
                v = self.np.array(val) if attr == 'vib_wavenumbers' else (list(val) if attr == 'rot_temperatures' else val)
                if attr == 'symmetrynumber' and isinstance(val, str):
                    v = POINT_GROUPS[val]        # the label form is a constructor feature; edits assign the number
                setattr(m, attr, v)
                self.mp[a['mode']][attr] = val if not (attr == 'symmetrynumber' and isinstance(val, str)) else POINT_GROUPS[val]
                if attr == 'imaginary_substitute':
                    ctx.probe('edit-imaginary-substitute')
                elif attr == 'vib_wavenumbers':
                    ctx.probe('edit-wavenumbers')
                elif attr == 'spin':
                    ctx.probe('edit-spin')
                elif attr in ('Bav', 'v0', 'alpha'):
                    ctx.probe('edit-qrrho-parameter')
            self.n_edits += 1
            out = 'edited'
        elif name == 'swap':
            if a['species'] not in self.sp:
                raise Skip()
            self._add_mode(a['mode'])
            ctx.probe('swap-mode')
            setattr(self.sp[a['species']], a['slot'] + '_model', self.mode[a['mode']['id']])
            self.slots[a['species']][a['slot']] = a['mode']['id']
            out = 'swapped'
        elif name == 'eval':
            if a['species'] not in self.sp:
                raise Skip()
            out = self._check_species(a['species'], a['T'], a['P'], a.get('P2'), full=True)
        elif name == 'geometry':
            out = self._check_geometry(a)
        else:
            raise Skip()
        users = {}
        for sid, sl in self.slots.items():
            for mid in sl.values():
                users.setdefault(mid, set()).add(sid)
        if any(len(u) > 1 for mid, u in users.items() if PARAMS[self.mk[mid]]):
            ctx.probe('mode-shared-by-two-species')
        for sid in sorted(self.sp):
            self._check_species(sid, 300.0, 1.0, None, full=False)
        return out

    # ------------------------------------------------------------------ oracle
    def _getters(self, obj, T, P, what, sid=None):
        vals = {}
        for q in QS:
            if sid is not None and self.ctx.swarm.get('cond_dict'):
                vals[q] = self._via_dict(sid, obj, q, T, P, what)
            else:
                vals[q] = float(self.real(_call, getattr(obj, 'get_' + q), T=T, P=P,
                                          _what='%s get_%s(T=%r, P=%r)' % (what, q, T, P)))
        return vals

    def _via_dict(self, sid, obj, q, T, P, what):
        """The caller keeps ONE conditions dictionary per species - temperature on top, the species' own pressure in its
        '<name>_kwargs' block, a block for somebody else next to it - and only updates the numbers between calls."""
        name = obj.name
        cond = self.cdict.setdefault(sid, {'T': None, name + '_kwargs': {'P': None}, 'ZZ9_kwargs': {'P': 0.2}})
        cond['T'] = T
        cond[name + '_kwargs']['P'] = P
        self.ctx.probe('conditions-in-a-reused-dictionary')
        v = float(self.real(getattr(obj, 'get_' + q), _what='%s get_%s(**reused conditions %r)' % (what, q, cond), **cond))
        if cond != {'T': T, name + '_kwargs': {'P': P}, 'ZZ9_kwargs': {'P': 0.2}}:
            raise Violation('conditions-unmodified', '%s: get_%s changed the caller\'s conditions dictionary to %r' % (what, q, cond))
        return v

    def _deriv(self, f, T):
        def d(h):
            return (-f(T + 2 * h) + 8 * f(T + h) - 8 * f(T - h) + f(T - 2 * h)) / (12 * h)
        h = 0.02 * T
        return (16 * d(h / 2) - d(h)) / 15

    def _check_species(self, sid, T, P, P2, full):
        ctx, np = self.ctx, self.np
        sp = self.sp[sid]
        sl = self.slots[sid]
        kinds = {slot: self.mk[mid] for slot, mid in sl.items()}
        what = 'species %d %s' % (sid, sorted(kinds.items()))
        v = self._getters(sp, T, P, what, sid=sid)
        # (c) coherence: the edited object equals a freshly built one with the same public parameters
        fresh = self._species_from('fresh', sl, fresh=True, misc=self.misc.get(sid) or None)
        vf = self._getters(fresh, T, P, 'fresh twin of ' + what)
        for q in QS:
            if abs(v[q] - vf[q]) > 1e-10 * max(1.0, abs(vf[q])):
                stale = [(slot, self.mk[mid], self.mp[mid]) for slot, mid in sl.items() if PARAMS[self.mk[mid]]]
                raise Violation('edited-equals-fresh',
                                '%s: get_%s(T=%r) = %r after its edit history, a freshly built species with the same public '
                                'parameters gives %r (parameters %r)' % (what, q, T, v[q], vf[q], stale))
        tol = lambda *xs: 1e-9 * max([1.0] + [abs(x) for x in xs])
        if self.misc.get(sid):
            ctx.probe('species-with-misc-models')
        if 'ConstantMode' in kinds.values() or self.misc.get(sid):
            ctx.probe('constant-mode-additivity-only')
            if full:
                self._check_verbose(sp, sl, kinds, v, T, P, what, tol)
            return 'additivity only'
        if kinds['elec'] == 'LSR':
            ctx.probe('lsr-electronic-mode')
        if full:
            # the same values in units: x R (heat capacities, entropy) or x R T (energies), and G = H - T S there as well
            dim = {}
            unit = ('kJ/mol', 'kcal/mol', 'J/mol', 'eV/molecule')[int(T) % 4]
            for q, nm_ in (('CvoR', 'Cv'), ('CpoR', 'Cp'), ('UoRT', 'U'), ('HoRT', 'H'), ('SoR', 'S'), ('FoRT', 'F'), ('GoRT', 'G')):
                per_K = nm_ in ('Cv', 'Cp', 'S')
                try:
                    Rv = self.c.R((unit if unit != 'eV/molecule' else 'eV') + '/K')
                except KeyError:
                    break
                u_arg = (unit if unit != 'eV/molecule' else 'eV') + '/K' if per_K else unit
                if unit == 'eV/molecule' and not per_K:
                    u_arg = 'eV/molecule'
                try:
                    d_ = float(self.real(_call, getattr(sp, 'get_' + nm_), T=T, P=P, units=u_arg,
                                         _what='get_%s(units=%r)' % (nm_, u_arg), _allowed=(KeyError,)))
                except KeyError:
                    break                   # (a unit string the constants table does not know: not C01's subject)
                w_ = v[q] * Rv * (1.0 if per_K else T)
                if abs(d_ - w_) > 1e-10 * max(abs(Rv) * (1.0 if per_K else T), abs(w_)):
                    raise Violation('units-times-R', '%s: get_%s(units=%r, T=%r) = %r; the dimensionless value x R%s = %r' % (
                        what, nm_, u_arg, T, d_, '' if per_K else ' T', w_))
                dim[nm_] = d_
            else:
                ctx.probe('dimensional-getters')
            # options that only say what to do about a mode lacking the getter change nothing when none lacks it
            for q in QS:
                v2 = float(self.real(_call, getattr(sp, 'get_' + q), T=T, P=P, raise_error=False, raise_warning=False,
                                     _what='get_%s(raise_error=False, raise_warning=False)' % q))
                if abs(v2 - v[q]) > 1e-12 * max(1.0, abs(v[q])):
                    raise Violation('options-neutral', '%s: get_%s = %r, with raise_error=False, raise_warning=False %r' % (
                        what, q, v[q], v2))
        # (b) identities
        if abs(v['GoRT'] - (v['HoRT'] - v['SoR'])) > tol(v['HoRT'], v['SoR']):
            raise Violation('G=H-TS', '%s at T=%r: G/RT=%r, H/RT - S/R = %r' % (what, T, v['GoRT'], v['HoRT'] - v['SoR']))
        if abs(v['FoRT'] - (v['UoRT'] - v['SoR'])) > tol(v['UoRT'], v['SoR']):
            raise Violation('F=U-TS', '%s at T=%r: F/RT=%r, U/RT - S/R = %r' % (what, T, v['FoRT'], v['UoRT'] - v['SoR']))
        has_trans = kinds['trans'] == 'FreeTrans'
        want = 1.0 if has_trans else 0.0
        if abs((v['HoRT'] - v['UoRT']) - want) > tol(v['HoRT']):
            raise Violation('H-U', '%s at T=%r: H/RT - U/RT = %r, expected %r' % (what, T, v['HoRT'] - v['UoRT'], want))
        if not full:
            return 'ok'
        if isinstance(T, int):
            ctx.probe('integer-temperature')
        if T < 150:
            ctx.probe('low-T-regime')
        if T > 2500:
            ctx.probe('high-T-regime')
        for slot, k in kinds.items():
            if k == 'DebyeVib':
                ctx.probe('debye-mode')
            if k == 'EinsteinVib':
                ctx.probe('einstein-mode')
            if k == 'QRRHOVib':
                ctx.probe('qrrho-mode')
        if kinds['trans'] == 'FreeTrans' and self.mp[sl['trans']]['n_degrees'] < 3:
            ctx.probe('trans-1-or-2-dof')
        # derivatives
        if self.ctx.swarm.get('cond_dict'):
            gU = lambda t: self._via_dict(sid, sp, 'UoRT', t, P, what) * t
            gH = lambda t: self._via_dict(sid, sp, 'HoRT', t, P, what) * t
            gS = lambda t: self._via_dict(sid, sp, 'SoR', t, P, what)
        else:
            gU = lambda t: float(_call(sp.get_UoRT, T=t, P=P)) * t
            gH = lambda t: float(_call(sp.get_HoRT, T=t, P=P)) * t
            gS = lambda t: float(_call(sp.get_SoR, T=t, P=P))
        for nm, f, wantv in (('Cv=dU/dT', gU, v['CvoR']), ('Cp=dH/dT', gH, v['CpoR']), ('dS/dT=Cp/T', gS, v['CpoR'] / T)):
            if nm == 'dS/dT=Cp/T' and kinds['vib'] == 'DebyeVib' and not ctx.allow('C01-debye-entropy'):
                continue
            d = self.real(self._deriv, f, T, _what='getter sweep for ' + nm)
            scale = max(abs(wantv), abs(d))
            lim = 1e-6 * scale + (1e-8 if nm != 'dS/dT=Cp/T' else 1e-8 / T)
            if abs(d - wantv) > lim:
                raise Violation(nm, '%s at T=%r: numerical derivative %r, reported %r' % (what, T, d, wantv))
            if abs(d - wantv) > lim / 10:
                ctx.near_miss[nm] += 1
        # pressure
        if has_trans and P2:
            ctx.probe('pressure-shift')
            s2 = float(_call(sp.get_SoR, T=T, P=P2))
            if abs((s2 - v['SoR']) + math.log(P2 / P)) > tol(s2, v['SoR']):
                raise Violation('S(P)', '%s at T=%r: S(P=%r) - S(P=%r) = %r, expected %r' % (
                    what, T, P2, P, s2 - v['SoR'], -math.log(P2 / P)))
        self._check_verbose(sp, sl, kinds, v, T, P, what, tol)
        # options addressed to one mode travel through the species unchanged (also when they are switched OFF)
        if kinds['vib'] == 'HarmonicVib':
            ctx.probe('option-through-species')
            mq = float(self.mode[sl['vib']].get_q(T=T, include_ZPE=False))
            qv = np.asarray(self.real(sp.get_q, T=T, P=P, include_ZPE=False, verbose=True,
                                      _what='get_q(include_ZPE=False, verbose=True)'), dtype=float)
            if math.isfinite(mq) and 1e-280 < abs(mq) < 1e280 and abs(qv[1] - mq) > 1e-9 * abs(mq):
                raise Violation('verbose-product', '%s: get_q(include_ZPE=False) reports %r for the vibrational mode; the mode '
                                'itself, asked with include_ZPE=False, reports %r' % (what, qv[1], mq))
        if kinds['elec'] == 'GroundStateElec' and kinds['vib'] != 'QRRHOVib' and abs(self.mp[sl['elec']]['potentialenergy']) / (8.617e-5 * T) < 600:
            me = float(self.mode[sl['elec']].get_q(T=T, ignore_q_elec=False))
            qv = np.asarray(self.real(sp.get_q, T=T, P=P, ignore_q_elec=False, verbose=True,
                                      _what='get_q(ignore_q_elec=False, verbose=True)'), dtype=float)
            if math.isfinite(me) and abs(qv[3] - me) > 1e-9 * abs(me):
                raise Violation('verbose-product', '%s: get_q(ignore_q_elec=False) reports %r for the electronic mode; the '
                                'mode itself reports %r' % (what, qv[3], me))
        # (a) textbook forms of the closed-form modes
        for slot, mid in sl.items():
            self._textbook(mid, T, P)
        return 'full'

    def _check_verbose(self, sp, sl, kinds, v, T, P, what, tol):
        ctx, np = self.ctx, self.np
        sid_ = [k_ for k_, o_ in self.sp.items() if o_ is sp]
        misc = self.misc.get(sid_[0]) if sid_ else None
        if misc:
            # the misc models' share: the sum of what each reports (the product, for partition functions)
            mods = [self.cls['ConstantMode'](**p_) for p_ in misc]
            for q in QS:
                arr = np.asarray(_call(getattr(sp, 'get_' + q), T=T, P=P, verbose=True), dtype=float)
                want_m = [float(_call(getattr(m_, 'get_' + q), T=T, P=P)) for m_ in mods]
                got_m = [float(x) for x in arr[6:]]
                if len(got_m) != len(want_m) or any(abs(g_ - w_) > tol(w_) for g_, w_ in zip(got_m, want_m)):
                    raise Violation('verbose-sum', '%s: the misc-model entries of get_%s are %r, the models themselves report %r' % (
                        what, q, got_m, want_m))
            if kinds['vib'] != 'QRRHOVib':
                want_q = 1.0
                for m_ in mods:
                    want_q *= float(m_.get_q())
                qt = float(_call(sp.get_q, T=T, P=P))
                base = float(np.prod(np.asarray(_call(sp.get_q, T=T, P=P, verbose=True), dtype=float)[:6]))
                if math.isfinite(qt) and math.isfinite(base) and 1e-250 < abs(base * want_q) < 1e250 and \
                        abs(qt - base * want_q) > 1e-9 * abs(base * want_q):
                    raise Violation('verbose-product', '%s: get_q = %r; the modes multiply to %r and the misc models to %r' % (
                        what, qt, base, want_q))
        # verbose
        ctx.probe('verbose-sum')
        for q in QS:
            arr = np.asarray(self.real(_call, getattr(sp, 'get_' + q), T=T, P=P, verbose=True, _what='get_%s(verbose=True)' % q),
                             dtype=float)
            if abs(arr.sum() - v[q]) > tol(v[q], *arr.tolist()):
                raise Violation('verbose-sum', '%s: get_%s verbose entries %r sum to %r, total %r' % (what, q, arr.tolist(),
                                                                                                   arr.sum(), v[q]))
            for slot, idx in (('trans', 0), ('vib', 1), ('rot', 2), ('elec', 3), ('nucl', 4)):
                mv = float(_call(getattr(self.mode[sl[slot]], 'get_' + q), T=T, P=P))
                if abs(arr[idx] - mv) > tol(mv):
                    raise Violation('verbose-sum', '%s: verbose entry %d of get_%s is %r, the %s mode itself reports %r' % (
                        what, idx, q, arr[idx], slot, mv))
        if kinds['vib'] != 'QRRHOVib':
            qv = np.asarray(self.real(_call, sp.get_q, T=T, P=P, verbose=True, _what='get_q(verbose=True)'), dtype=float)
            qt = float(_call(sp.get_q, T=T, P=P))
            if math.isfinite(qt) and abs(np.prod(qv) - qt) > 1e-9 * max(abs(qt), 1e-300):
                raise Violation('verbose-product', '%s: get_q verbose entries %r multiply to %r, total %r' % (
                    what, qv.tolist(), np.prod(qv), qt))

    def _textbook(self, mid, T, P):
        ctx, np, c = self.ctx, self.np, self.c
        k = self.mk[mid]
        p = self.mp[mid]
        m = self.mode[mid]
        want = None
        if k == 'HarmonicVib':
            ctx.probe('textbook-harmonic')
            wn = [w for w in p['vib_wavenumbers']]
            if any(w < 0 for w in wn):
                ctx.probe('imaginary-mode-present')
            sub = p['imaginary_substitute']
            wn = [(w if w > 0 else sub) for w in wn if w > 0 or sub is not None]
            th = [c.h('J s') * c.c('cm/s') * w / c.kb('J/K') for w in wn]
            x = [t / T for t in th]
            want = {'CvoR': sum(xi ** 2 * math.exp(xi) / (math.exp(xi) - 1) ** 2 if xi < 500 else 0.0 for xi in x),
                    'UoRT': sum(xi * (0.5 + (1 / (math.exp(xi) - 1) if xi < 500 else 0.0)) for xi in x),
                    'SoR': sum((xi / (math.exp(xi) - 1) if xi < 500 else 0.0) - math.log(1 - math.exp(-xi)) for xi in x)}
            want['CpoR'] = want['CvoR']
            want['HoRT'] = want['UoRT']
            if x and sum(x) < 1000:
                lq0 = -sum(math.log(1 - math.exp(-xi)) for xi in x)
                want['q_noZPE'] = math.exp(lq0)                     # zero of energy at the vibrational ground state
                want['q'] = math.exp(lq0 - 0.5 * sum(x))            # zero of energy at the bottom of the well
                ctx.probe('textbook-harmonic-q-both-zeros')
        elif k == 'FreeTrans' and p['n_degrees'] == 3:
            ctx.probe('textbook-trans')
            mkg = p['molecular_weight'] * 1e-3 / c.Na
            lam = (2 * math.pi * mkg * c.kb('J/K') * T / c.h('J s') ** 2) ** 1.5
            V = c.kb('J/K') * T / (P * 1e5)
            want = {'CvoR': 1.5, 'CpoR': 2.5, 'UoRT': 1.5, 'HoRT': 2.5, 'SoR': math.log(lam * V) + 2.5, 'q': lam * V}
        elif k == 'RigidRotor':
            ctx.probe('textbook-rotor')
            sig = p['symmetrynumber'] if not isinstance(p['symmetrynumber'], str) else POINT_GROUPS[p['symmetrynumber']]
            geo = p['geometry']
            if geo == 'monatomic':
                ctx.probe('monatomic-rotor')
                want = {'CvoR': 0.0, 'CpoR': 0.0, 'UoRT': 0.0, 'HoRT': 0.0, 'SoR': 0.0}
                if ctx.allow('C01-monatomic-q'):
                    want['q'] = 1.0        # no rotational degrees of freedom: the factor is one
            elif geo == 'linear':
                ctx.probe('linear-rotor')
                q = T / (sig * p['rot_temperatures'][0])
                want = {'CvoR': 1.0, 'CpoR': 1.0, 'UoRT': 1.0, 'HoRT': 1.0, 'SoR': math.log(q) + 1.0, 'q': q}
            else:
                q = math.sqrt(math.pi) / sig * math.sqrt(T ** 3 / np.prod(p['rot_temperatures']))
                want = {'CvoR': 1.5, 'CpoR': 1.5, 'UoRT': 1.5, 'HoRT': 1.5, 'SoR': math.log(q) + 1.5, 'q': q}
        elif k == 'EinsteinVib':
            ctx.probe('textbook-einstein')
            x = p['einstein_temperature'] / T
            ex = math.exp(-x)
            u0 = (p['interaction_energy'] + 1.5 * p['einstein_temperature'] * c.kb('eV/K')) / (c.kb('eV/K') * T)
            want = {'CvoR': 3 * x * x * ex / (1 - ex) ** 2, 'UoRT': u0 + 3 * x * ex / (1 - ex),
                    'SoR': 3 * (x * ex / (1 - ex) - math.log(1 - ex))}
            want['CpoR'] = want['CvoR']
            want['HoRT'] = want['UoRT']
        elif k == 'DebyeVib':
            ctx.probe('textbook-debye-Cv')
            from scipy.integrate import quad
            xd = p['debye_temperature'] / T
            integ = quad(lambda y: y ** 4 * math.exp(-y) / (1 - math.exp(-y)) ** 2 if y > 0 else 0.0, 0, xd)[0]
            want = {'CvoR': 9.0 / xd ** 3 * integ}      # U and S of this mode are the subject of known finding C01-debye-entropy
            want['CpoR'] = want['CvoR']
        elif k == 'QRRHOVib':
            ctx.probe('textbook-qrrho')
            sub = p['imaginary_substitute']
            wn = [(w if w > 0 else sub) for w in p['vib_wavenumbers'] if w > 0 or sub is not None]
            cv = u = sr = 0.0
            for w in wn:
                th = c.h('J s') * c.c('cm/s') * w / c.kb('J/K')
                x = th / T
                ex = math.exp(-x) if x < 700 else 0.0
                om = 1.0 / (1.0 + (p['v0'] / w) ** p['alpha'])
                mu = c.h('J s') / (8 * math.pi ** 2 * c.c('cm/s') * w)
                mup = mu * p['Bav'] / (mu + p['Bav'])
                cv += om * (x * x * ex / (1 - ex) ** 2) + 0.5 * (1 - om)
                u += om * x * (0.5 + ex / (1 - ex)) + 0.5 * (1 - om)
                s_h = x * ex / (1 - ex) - math.log(1 - ex)
                s_r = 0.5 + math.log(math.sqrt(8 * math.pi ** 3 * mup * c.kb('J/K') * T / c.h('J s') ** 2))
                sr += om * s_h + (1 - om) * s_r
            want = {'CvoR': cv, 'CpoR': cv, 'UoRT': u, 'HoRT': u, 'SoR': sr}
        elif k == 'GroundStateElec':
            ctx.probe('textbook-elec')
            e = p['potentialenergy'] / (c.kb('eV/K') * T)
            want = {'CvoR': 0.0, 'CpoR': 0.0, 'UoRT': e, 'HoRT': e, 'SoR': math.log(2 * p['spin'] + 1)}
        if want is None:
            return
        for q, w in want.items():
            if q == 'q_noZPE':
                g = float(self.real(m.get_q, T=T, include_ZPE=False, _what='%s.get_q(include_ZPE=False)' % k))
            else:
                g = float(self.real(_call, getattr(m, 'get_' + q), T=T, P=P, _what='%s.get_%s' % (k, q)))
            if q.startswith('q'):
                if not (1e-280 < abs(w) < 1e280):
                    continue
                if abs(g - w) > 1e-8 * abs(w):
                    raise Violation('textbook-' + k, '%s with %r at T=%r P=%r: %s = %r, textbook expression = %r' % (
                        k, p, T, P, q, g, w))
                continue
            if abs(g - w) > 1e-8 * max(1.0, abs(w)):
                raise Violation('textbook-' + k, '%s with %r at T=%r P=%r: get_%s = %r, textbook expression = %r' % (
                    k, p, T, P, q, g, w))

    def _check_geometry(self, a):
        """Geometry-derived parameters do not depend on orientation, position or atom order."""
        import random
        from ase.build import molecule
        np = self.np
        self.ctx.probe('geometry-rigid-motion')
        at = molecule(a['mol'])
        ref = self._geom(at)
        at2 = at.copy()
        order = list(range(len(at2)))
        random.Random(a['perm_seed']).shuffle(order)
        at2 = at2[order]
        for ax, ang in zip('xyz', a['euler']):
            at2.rotate(ang, ax)
        at2.translate(a['shift'])
        got = self._geom(at2)
        if got['geometry'] != ref['geometry']:
            raise Violation('geometry-invariant', '%s: geometry %r became %r after a rigid motion / permutation' % (
                a['mol'], ref['geometry'], got['geometry']))
        r0, r1 = sorted(ref['rot']), sorted(got['rot'])
        if len(r0) != len(r1) or any(abs(x - y) > 1e-6 * max(abs(x), 1e-12) for x, y in zip(r0, r1)):
            raise Violation('geometry-invariant', '%s: rotational temperatures %r became %r' % (a['mol'], r0, r1))
        if abs(ref['mw'] - got['mw']) > 1e-9 or ref['elements'] != got['elements']:
            raise Violation('geometry-invariant', '%s: molar mass / composition changed (%r, %r) -> (%r, %r)' % (
                a['mol'], ref['mw'], ref['elements'], got['mw'], got['elements']))
        # the rotational temperatures themselves: h^2 / (8 pi^2 I k) of the principal moments of inertia (taken from ASE);
        # three for a nonlinear molecule (equal ones included), one for a linear one, none for an atom
        c = self.c
        moments = [float(x) for x in at.get_moments_of_inertia()]
        want_rt = sorted(c.h('J s') ** 2 / (8 * math.pi ** 2 * (I_ * 1.66053906660e-27 * 1e-20) * c.kb('J/K'))
                         for I_ in moments if I_ > 1e-6)
        if ref['geometry'] == 'linear':
            want_rt = want_rt[:1]
        elif ref['geometry'] == 'monatomic':
            want_rt = []
        have_rt = sorted(ref['rot'])
        if len(have_rt) != len(want_rt) or any(abs(x - y) > 1e-3 * y for x, y in zip(have_rt, want_rt)):
            raise Violation('geometry-invariant', '%s (%s): rotational temperatures %r; from the principal moments of inertia %r' % (
                a['mol'], ref['geometry'], have_rt, want_rt))
        self.ctx.probe('rot-temperatures-from-moments')
        for side, g in (('as bundled', ref), ('moved / permuted', got)):
            if abs(g['sp_mw'] - ref['mw']) > 1e-9 or g['sp_elements'] != ref['elements'] or g['sp_geometry'] != ref['geometry']:
                raise Violation('geometry-invariant', '%s (%s): a species built from the Atoms object has molar mass %r, '
                                'composition %r, geometry %r; the molecule has %r, %r, %r' % (
                                    a['mol'], side, g['sp_mw'], g['sp_elements'], g['sp_geometry'], ref['mw'],
                                    ref['elements'], ref['geometry']))
        if abs(ref['sp_S'] - got['sp_S']) > 1e-6 * max(1.0, abs(ref['sp_S'])) or \
                abs(ref['sp_G'] - got['sp_G']) > 1e-6 * max(1.0, abs(ref['sp_G'])):
            raise Violation('geometry-invariant', '%s: S/R, G/RT of the species built from the geometry (%r, %r) became (%r, %r) '
                            'after a rigid motion / permutation' % (a['mol'], ref['sp_S'], ref['sp_G'], got['sp_S'], got['sp_G']))
        return a['mol']

    def _geom(self, atoms):
        from pmutt import get_molecular_weight, parse_formula
        geo = self.real(self.rot.get_geometry_from_atoms, atoms, _what='get_geometry_from_atoms')
        rt = self.real(self.rot.get_rot_temperatures_from_atoms, atoms, geometry=geo, _what='get_rot_temperatures_from_atoms')
        formula = atoms.get_chemical_formula(mode='hill')
        # the documented route from a geometry to a species: every mode reads what it needs from the Atoms object
        sp = self.real(self.sm.StatMech, atoms=atoms, symmetrynumber=1, vib_wavenumbers=[1000.0], potentialenergy=-1.0,
                       spin=0, _what='StatMech(atoms=..., **presets[idealgas])', **self.sm.presets['idealgas'])
        return {'geometry': geo, 'rot': [float(x) for x in rt], 'mw': float(get_molecular_weight(formula)),
                'elements': parse_formula(formula), 'sp_mw': float(sp.trans_model.molecular_weight),
                'sp_elements': dict(sp.elements), 'sp_geometry': sp.rot_model.geometry,
                'sp_rot': sorted(float(x) for x in sp.rot_model.rot_temperatures),
                'sp_S': float(sp.get_SoR(T=500.0, P=1.0)), 'sp_G': float(sp.get_GoRT(T=500.0, P=1.0))}

    def abstract_state(self):
        users = {}
        for sid, sl in self.slots.items():
            for mid in sl.values():
                users.setdefault(mid, set()).add(sid)
        st = []
        for sid in sorted(self.sp):
            sl = self.slots[sid]
            st.append((tuple(self.mk[sl[s]] for s in sorted(sl)),
                       any(len(users[m]) > 1 for m in sl.values() if PARAMS[self.mk[m]]), min(self.n_edits, 5)))
        return st

    def simplify(self, op):
        a = op['args']
        if op['op'] == 'mkspecies':
            for i, md in enumerate(a['modes']):
                if md['kind'] not in ('EmptyMode', 'EmptyNucl'):
                    slot = [s for s, m in a['slots'].items() if m == md['id']]
                    if slot:
                        repl = 'EmptyNucl' if slot[0] == 'nucl' else 'EmptyMode'
                        yield {**op, 'args': {**a, 'modes': a['modes'][:i] + [{'id': md['id'], 'kind': repl, 'params': {}}] +
                                              a['modes'][i + 1:]}}
                wn = md['params'].get('vib_wavenumbers')
                if wn and len(wn) > 1:
                    for j in range(len(wn)):
                        p2 = dict(md['params'], vib_wavenumbers=wn[:j] + wn[j + 1:])
                        yield {**op, 'args': {**a, 'modes': a['modes'][:i] + [dict(md, params=p2)] + a['modes'][i + 1:]}}
        elif op['op'] == 'eval':
            if a.get('P2'):
                yield {**op, 'args': {**a, 'P2': None}}
            for T in (300.0, 1000.0):
                if a['T'] != T:
                    yield {**op, 'args': {**a, 'T': T}}
