"""World C11: build -> edit -> encode -> decode -> re-decode -> re-encode histories over nested object graphs."""
import copy
import inspect
import json
import math

from ..core import World, Violation, Skip

MODE_KINDS = ['FreeTrans', 'HarmonicVib', 'QRRHOVib', 'EinsteinVib', 'DebyeVib', 'RigidRotor',
              'GroundStateElec', 'EmptyNucl', 'EmptyMode', 'ConstantMode']
SPECIES_KINDS = ['StatMech', 'Nasa', 'Nasa9', 'Shomate']
LEAF_KINDS = ['SingleNasa9', 'GasPressureAdj', 'PiecewiseCovEffect', 'CatSite', 'BEP', 'IdealGasEOS',
              'vanDerWaalsEOS', 'Reference', 'References', 'LSR']
GRAPH_KINDS = ['Reaction', 'ChemkinReaction', 'SurfaceReaction', 'Reactions', 'PhaseDiagram']
ALL_KINDS = MODE_KINDS + SPECIES_KINDS + LEAF_KINDS + GRAPH_KINDS

IDENT = ['name', 'elements', 'phase', 'notes', 'smiles', 'id', 'units', 'n_sites', 'descriptor', 'name_i', 'name_j',
         'is_adsorption', 'sticking_coeff', 'beta', 'site_density', 'density', 'bulk_specie', 'T_ref', 'T_low', 'T_mid',
         'T_high', 'symmetrynumber', 'spin', 'geometry', 'n_degrees', 'molecular_weight', 'slope', 'intercept',
         'direction', 'use_motz_wise', 'norm_factors', 'a', 'b', 'D0', 'imaginary_substitute', 'Bav', 'v0', 'alpha',
         'intervals', 'slopes', 'q', 'Cv', 'Cp', 'U', 'H', 'S', 'F', 'G']

POOL = {'T': 650.0, 'P': 2.5, 'x': 0.35, 'V': 0.03, 'n': 1.5, 'Vm': 0.02, 'units': 'kJ/mol', 'rev': False,
        'act': False, 'del_m': 1.0, 'sden_operation': 'min', 'include_ZPE': False, 'use_references': True,
        'gas_phase': True}

H2O_LOW = [4.19864056E+00, -2.03643410E-03, 6.52040211E-06, -5.48797062E-09, 1.77197817E-12, -3.02937267E+04,
           -8.49032208E-01]
H2O_HIGH = [3.03399249E+00, 2.17691804E-03, -1.64072518E-07, -9.70419870E-11, 1.68200992E-14, -3.00042971E+04,
            4.96677010E+00]
N9_A = [2.210371497E+04, -3.818461820E+02, 6.082738360E+00, -8.530914410E-03, 1.384646189E-05, -9.625793620E-09,
        2.519705809E-12, 7.108460860E+02, -1.076003744E+01]
SHO_A = [30.09200, 6.832514, 6.793435, -2.534480, 0.082139, -250.8810, 223.3967, -241.8264]


def _same(a, b, rtol=1e-10):
    """NaN-aware structural equality of getter outcomes."""
    import numpy as np
    if isinstance(a, tuple) and a and a[0] == 'EXC':
        return isinstance(b, tuple) and b and b[0] == 'EXC' and a[1] == b[1]
    if isinstance(b, tuple) and b and b[0] == 'EXC':
        return False
    try:
        aa = np.asarray(a, dtype=float)
        bb = np.asarray(b, dtype=float)
    except (TypeError, ValueError):
        return a == b
    if aa.shape != bb.shape:
        return False
    return bool(np.all((np.isnan(aa) & np.isnan(bb)) | (np.abs(aa - bb) <= rtol * np.maximum(np.abs(aa), np.abs(bb)) + 1e-12)
                       | (aa == bb)))


def _plain(v):
    import numpy as np
    if isinstance(v, np.ndarray):
        return [_plain(x) for x in v.tolist()]
    if isinstance(v, np.generic):
        return v.item()
    if isinstance(v, (list, tuple)):
        return [_plain(x) for x in v]
    if isinstance(v, dict):
        return {str(k): _plain(x) for k, x in v.items()}
    if isinstance(v, (int, float, str, bool)) or v is None:
        return v
    return '<%s>' % type(v).__name__


class WorldC11(World):
    PROP = 'C11'
    RUNS = {'quick': 2500, 'thorough': 60000}
    WALL = {'quick': 50, 'thorough': 560}
    STATE_CHANGING = ('build', 'cycle', 'decode_twice', 'edit', 'cold_decode')
    STATE_RULE = 'per object: (class, nesting depth, number of completed encode/decode cycles bucket)'
    PROBES = ('decode-same-dict-twice', 'cycles>=3', 'nested-depth>=3', 'shared-species-in-reactions', 'statmech-with-references',
              'statmech-with-misc-models', 'empirical-with-cov-model', 'edit-then-encode', 'via-text', 'via-dict', 'nasa9-segments-not-ascending', 'scrambled-first-decode',
              'references-offsets-cleared', 'decode-in-a-fresh-interpreter', 'evaluated-before-encoding',
              'refused-mutator-before-encoding', 'nested-species-edited', 'references-offsets-only',
              'model-appended-after-construction') + \
        tuple('class-' + k for k in ALL_KINDS)
    REAL = ('pmutt.io.json (pmuttEncoder, json_to_pmutt, type_to_class, remove_class)', 'to_dict/from_dict of every class built',
            'json module', 'every get_* getter of the built objects')
    SIMULATED = ('1-3 clients building, editing, encoding, decoding and re-decoding over a shared object pool',)
    ASSUMPTIONS = ('"every property getter" = every public get_* method whose required parameters can be filled from a fixed '
                   'pool of scalar conditions (T, P, x, V, n, units, rev, act); methods needing other objects are not called',)
    TRIGGERS = {
        'C11-shomate-n_sites': 'a Shomate species is built with n_sites other than None',
        'C11-elec-D0': 'a GroundStateElec mode is built with D0 other than None',
        'C11-reaction-notes': 'a Reaction / ChemkinReaction / SurfaceReaction is built with notes other than None',
        'C11-class-LSR': 'an LSR object is built (from numbers)',
    }
    PROBE_TRIGGER = {'class-LSR': 'C11-class-LSR'}
    MAX_STEPS = 40

    # ------------------------------------------------------------------ gen
    def gen_swarm(self, rng, tier):
        fam = rng.choice(['modes', 'species', 'leaf', 'graph', 'all', 'all'])
        kinds = {'modes': MODE_KINDS, 'species': SPECIES_KINDS, 'leaf': LEAF_KINDS, 'graph': GRAPH_KINDS,
                 'all': ALL_KINDS}[fam]
        return {'n_clients': rng.randint(1, 3), 'kinds': [k for k in kinds if self.ctx_allow_kind(k)],
                'max_objects': rng.randint(1, 4), 'lsr': fam in ('leaf', 'all'), 'w_cycle': rng.choice([2, 3]), 'w_twice': rng.choice([1, 2]),
                'w_edit': rng.choice([0, 1]), 'cold': rng.random() < (0.06 if tier == 'thorough' else 0.03)}

    def ctx_allow_kind(self, k):
        return k != 'LSR'      # refined per run in gen_op (known-finding trigger C11-class-LSR)

    def n_steps(self, rng, swarm):
        return rng.randint(3, 12)

    def setup(self, swarm):
        import numpy as np
        import pmutt.io.json as pj
        self.np, self.pj = np, pj
        self.obj = {}      # id -> current real object
        self.meta = {}     # id -> {'kind', 'desc', 'cycles', 'depth'}
        self.cold_done = False

    # descriptors ----------------------------------------------------------
    def gen_desc(self, rng, kind, depth=0):
        allow = self.ctx.allow
        r = rng.random
        u = rng.uniform
        if kind == 'FreeTrans':
            return {'k': kind, 'n_degrees': rng.choice([1, 2, 3]), 'molecular_weight': round(u(1, 500), 3)}
        if kind == 'HarmonicVib':
            wn = [round(u(10, 4500), 2) for _ in range(rng.randint(1, 6))]
            if r() < 0.3:
                wn.append(-round(u(50, 900), 2))
            return {'k': kind, 'vib_wavenumbers': wn, 'imaginary_substitute': rng.choice([None, None, 50.0])}
        if kind == 'QRRHOVib':
            return {'k': kind, 'vib_wavenumbers': [round(u(10, 4500), 2) for _ in range(rng.randint(1, 6))],
                    'Bav': rng.choice([1e-44, 2.5e-44]), 'v0': rng.choice([100.0, 50.0]), 'alpha': rng.choice([4, 2]),
                    'imaginary_substitute': None}
        if kind == 'EinsteinVib':
            return {'k': kind, 'einstein_temperature': round(u(50, 2000), 2), 'interaction_energy': round(u(-2, 0), 3)}
        if kind == 'DebyeVib':
            return {'k': kind, 'debye_temperature': round(u(50, 2000), 2), 'interaction_energy': round(u(-2, 0), 3)}
        if kind == 'RigidRotor':
            geo = rng.choice(['monatomic', 'linear', 'nonlinear'])
            rt = {'monatomic': [], 'linear': [round(u(0.01, 100), 4)],
                  'nonlinear': [round(u(0.01, 100), 4) for _ in range(3)]}[geo]
            return {'k': kind, 'symmetrynumber': rng.choice([1, 2, 3, 12]), 'rot_temperatures': rt, 'geometry': geo}
        if kind == 'GroundStateElec':
            return {'k': kind, 'potentialenergy': round(u(-50, 0), 4), 'spin': rng.choice([0, 0.5, 1, 1.5]),
                    'D0': rng.choice([None, None, round(u(0.5, 10), 3)]) if allow('C11-elec-D0') else None}
        if kind in ('EmptyNucl', 'EmptyMode', 'GasPressureAdj', 'IdealGasEOS'):
            return {'k': kind}
        if kind == 'ConstantMode':
            return {'k': kind, 'q': round(u(0.5, 3), 3), 'Cv': round(u(0, 5), 3), 'Cp': round(u(0, 5), 3),
                    'U': round(u(-5, 5), 3), 'H': round(u(-5, 5), 3), 'S': round(u(0, 9), 3), 'F': round(u(-5, 5), 3),
                    'G': round(u(-5, 5), 3), 'notes': rng.choice([None, 'const'])}
        if kind == 'vanDerWaalsEOS':
            return {'k': kind, 'a': round(u(0.003, 3), 5), 'b': round(u(1e-5, 2e-4), 8)}
        if kind == 'PiecewiseCovEffect':
            n = rng.randint(1, 4)
            iv = [0.0] + sorted(set(round(u(0.05, 0.95), 3) for _ in range(n - 1)))
            return {'k': kind, 'name_i': 'CO*', 'name_j': rng.choice(['CO*', 'O*']), 'intervals': iv,
                    'slopes': [round(u(-30, 30), 3) for _ in iv], 'name': rng.choice([None, 'cov1'])}
        if kind == 'CatSite':
            return {'k': kind, 'name': rng.choice(['RU(S)', 'PT(S)']), 'site_density': rng.choice([2.5e-9, 1.1e-9]),
                    'density': round(u(5, 25), 2), 'bulk_specie': 'RU(B)'}
        if kind == 'BEP':
            return {'k': kind, 'slope': round(u(0, 1), 3), 'intercept': round(u(0, 60), 2), 'name': rng.choice([None, 'bep1']),
                    'descriptor': rng.choice(['delta_H', 'rev_delta_H', 'delta_E', 'reactants_H']),
                    'notes': rng.choice([None, 'n']), 'elements': rng.choice([None, {'C': 1, 'O': 1}])}
        if kind == 'SingleNasa9':
            return {'k': kind, 'T_low': 200.0, 'T_high': 1000.0, 'a': [v * round(u(0.5, 1.5), 3) for v in N9_A]}
        if kind == 'StatMech':
            d = {'k': kind, 'name': rng.choice(['H2O', 'CO*', 'X1']),
                 'trans': self.gen_desc(rng, rng.choice(['FreeTrans', 'EmptyMode']), depth + 1),
                 'vib': self.gen_desc(rng, rng.choice(['HarmonicVib', 'QRRHOVib', 'EinsteinVib', 'DebyeVib', 'EmptyMode']),
                                      depth + 1),
                 'rot': self.gen_desc(rng, rng.choice(['RigidRotor', 'EmptyMode']), depth + 1),
                 'elec': self.gen_desc(rng, rng.choice(['GroundStateElec', 'GroundStateElec', 'ConstantMode', 'EmptyMode']),
                                       depth + 1),
                 'nucl': self.gen_desc(rng, rng.choice(['EmptyNucl', 'EmptyMode']), depth + 1),
                 'elements': rng.choice([None, {'H': 2, 'O': 1}, {'C': 1, 'O': 1}]),
                 'smiles': rng.choice([None, 'O']), 'notes': rng.choice([None, 'PBE-D3']),
                 'references': None, 'misc': None}
            if depth < 2 and r() < 0.25:
                d['references'] = self.gen_desc(rng, 'References', depth + 1)
                d['elements'] = {'H': 2, 'O': 1}
            if r() < 0.2:
                d['misc'] = [self.gen_desc(rng, 'PiecewiseCovEffect', depth + 1)]
            return d
        if kind in ('Nasa', 'Nasa9', 'Shomate'):
            d = {'k': kind, 'name': rng.choice(['H2O', 'CO*', 'N2']), 'phase': rng.choice(['G', 'S', 'g', None]),
                 'elements': rng.choice([{'H': 2, 'O': 1}, {'C': 1, 'O': 1}]), 'notes': rng.choice([None, 'fit']),
                 'smiles': rng.choice([None, 'O']), 'scale': round(u(0.7, 1.3), 3),
                 'n_sites': None if (kind == 'Shomate' and not allow('C11-shomate-n_sites')) else rng.choice([None, 1, 2]),
                 'misc': None, 'segments': rng.randint(1, 3), 'seg_order': rng.choice(['ascending', 'ascending', 'descending'])}
            if r() < 0.3:
                d['misc'] = [self.gen_desc(rng, 'PiecewiseCovEffect', depth + 1)
                             for _ in range(rng.randint(1, 2))]
            if kind == 'Nasa' and r() < 0.2:
                d['cat_site'] = self.gen_desc(rng, 'CatSite', depth + 1)
            if kind == 'Nasa':
                # a fitted NASA polynomial has whatever T_mid the fit's grid search found
                d['T_mid'] = rng.choice([1000.0, 1000.0, 716.3265306122448, 1234.567890123, 998.7654321])
            return d
        if kind == 'Reference':
            sm = self.gen_desc(rng, 'StatMech', depth + 2)
            sm['references'] = None
            sm['misc'] = None
            el = rng.choice([{'H': 2}, {'O': 2}, {'H': 2, 'O': 1}, {'C': 1, 'O': 2}])
            return {'k': kind, 'name': 'ref_' + ''.join(sorted(el)), 'elements': el, 'T_ref': 298.15,
                    'HoRT_ref': round(u(-150, 5), 3), 'model': sm}
        if kind == 'References':
            els = [{'H': 2}, {'O': 2}, {'H': 2, 'O': 1}]
            refs = []
            for i in range(rng.randint(1, 3)):
                rd = self.gen_desc(rng, 'Reference', depth + 1)
                rd['elements'] = els[i]
                rd['name'] = 'ref%d' % i
                refs.append(rd)
            if rng.random() < 0.2:
                # offsets only: the table of a published fit, without the species it was fitted to
                return {'k': kind, 'refs': [], 'offset': {'H': round(u(-20, 0), 4), 'O': round(u(-900, -700), 3)}}
            return {'k': kind, 'refs': refs}
        if kind == 'LSR':
            return {'k': kind, 'slope': round(u(0, 1), 3), 'intercept': round(u(-3, 3), 3),
                    'reaction': round(u(-5, 0), 3), 'surf_species': round(u(-3, 0), 3), 'gas_species': round(u(-3, 0), 3)}
        if kind in ('Reaction', 'ChemkinReaction', 'SurfaceReaction'):
            sk = rng.choice(['StatMech', 'Nasa', 'Nasa', 'Shomate'] if kind == 'Reaction' else ['Nasa', 'Nasa', 'Shomate'])
            names = ['A', 'B', 'C', 'TS']
            sp = []
            for nm in names:
                sd = self.gen_desc(rng, sk, depth + 1)
                sd['name'] = nm
                sd['references'] = None
                if sk != 'StatMech':
                    sd['phase'] = rng.choice(['G', 'S'])
                sp.append(sd)
            d = {'k': kind, 'species': sp, 'stoich': [rng.choice([1, 1, 2, 0.5]) for _ in range(3)],
                 'ts': r() < 0.5, 'notes': rng.choice([None, 'rxn']) if allow('C11-reaction-notes') else None,
                 'share_AB': r() < 0.3}
            if kind != 'Reaction':
                d.update({'beta': rng.choice([1.0, 0.0]), 'is_adsorption': r() < 0.4,
                          'sticking_coeff': rng.choice([0.5, 0.1])})
            if kind == 'SurfaceReaction':
                d.update({'id': rng.choice([None, 'r_0007', '7', '007', '00012', '0042', 12, 'rxn-3']), 'direction': rng.choice([None, 'synthesis', 'cleavage'])})
            return d
        if kind in ('Reactions', 'PhaseDiagram'):
            n = rng.randint(1, 3)
            rx = [self.gen_desc(rng, 'Reaction', depth + 1) for _ in range(n)]
            d = {'k': kind, 'reactions': rx, 'share': r() < 0.5}
            if kind == 'PhaseDiagram':
                d['norm_factors'] = rng.choice([None, [round(u(0.5, 4), 2) for _ in range(n)]])
            return d
        raise ValueError(kind)

    def gen_op(self, rng):
        sw = self.ctx.swarm
        c = rng.randrange(sw['n_clients'])
        if len(self.obj) < sw['max_objects'] and (not self.obj or rng.random() < 0.4):
            pool = list(sw['kinds']) + (['LSR'] if self.ctx.allow('C11-class-LSR') and sw.get('lsr') else [])
            kind = rng.choice(pool)
            return {'c': c, 'op': 'build', 'args': {'id': len(self.obj), 'desc': self.gen_desc(rng, kind)}}
        k = rng.choice(sorted(self.obj))
        kinds = ['cycle'] * sw['w_cycle'] + ['decode_twice'] * sw['w_twice'] + ['edit'] * sw['w_edit']
        kind = rng.choice(kinds)
        if sw.get('cold') and not self.cold_done and rng.random() < 0.35:
            return {'c': c, 'op': 'cold_decode', 'args': {'id': k}}
        if self.meta[k]['kind'] in ('Nasa', 'Nasa9', 'Shomate') and rng.random() < 0.15:
            return {'c': c, 'op': 'edit', 'args': {'id': k, 'attr': 'misc_models.append()', 'value': round(rng.uniform(-20, 20), 2)}}
        if self.meta[k]['kind'] in ('Nasa', 'Nasa9', 'Shomate') and rng.random() < 0.2:
            # the object has a past: it was evaluated somewhere else before it is encoded
            return {'c': c, 'op': 'edit', 'args': {'id': k, 'attr': 'touch()', 'value': rng.choice([300.0, 1500.0, 2500.0, 5000.0])}}
        if self.meta[k]['kind'] == 'PiecewiseCovEffect' and rng.random() < 0.3:
            return {'c': c, 'op': 'edit', 'args': {'id': k, 'attr': 'pop(0)', 'value': None}}
        if self.meta[k]['kind'] in ('Reaction', 'ChemkinReaction', 'SurfaceReaction', 'Reactions') and rng.random() < 0.3:
            return {'c': c, 'op': 'edit', 'args': {'id': k, 'attr': 'species.name', 'value': rng.choice(['X', 'renamed*', 'q1'])}}
        if self.meta[k].get('has_refs') and rng.random() < 0.25:
            return {'c': c, 'op': 'edit', 'args': {'id': k, 'attr': 'clear_offset()', 'value': None}}
        if kind == 'cycle':
            return {'c': c, 'op': 'cycle', 'args': {'id': k, 'n': rng.choice([1, 1, 2, 3, 4]),
                                                    'via': rng.choice(['text', 'text', 'dict'])}}
        if kind == 'decode_twice':
            return {'c': c, 'op': 'decode_twice', 'args': {'id': k}}
        attr = rng.choice(['name', 'notes'])
        if attr == 'notes' and not self.ctx.allow('C11-reaction-notes') and \
                self.meta[k]['kind'] in ('Reaction', 'ChemkinReaction', 'SurfaceReaction'):
            attr = 'name'
        return {'c': c, 'op': 'edit', 'args': {'id': k, 'attr': attr, 'value': rng.choice(['renamed', 'note 2', ''])}}

    # building ---------------------------------------------------------------
    def build(self, d, shared=None):
        k = d['k']
        import pmutt.statmech as sm
        import pmutt.statmech.trans as trans
        import pmutt.statmech.vib as vib
        import pmutt.statmech.rot as rot
        import pmutt.statmech.elec as elec
        import pmutt.statmech.nucl as nucl
        import pmutt.statmech.lsr as lsr
        import pmutt.empirical as emp
        import pmutt.empirical.nasa as nasa
        import pmutt.empirical.shomate as sho
        import pmutt.empirical.references as refs
        import pmutt.mixture.cov as cov
        import pmutt.chemkin as ck
        import pmutt.reaction as rx
        import pmutt.reaction.bep as bep
        import pmutt.reaction.phasediagram as pd
        import pmutt.omkm.reaction as orx
        import pmutt.eos as eos
        np = self.np
        if k == 'FreeTrans':
            return trans.FreeTrans(n_degrees=d['n_degrees'], molecular_weight=d['molecular_weight'])
        if k == 'HarmonicVib':
            return vib.HarmonicVib(vib_wavenumbers=list(d['vib_wavenumbers']), imaginary_substitute=d['imaginary_substitute'])
        if k == 'QRRHOVib':
            return vib.QRRHOVib(vib_wavenumbers=list(d['vib_wavenumbers']), Bav=d['Bav'], v0=d['v0'], alpha=d['alpha'],
                                imaginary_substitute=d['imaginary_substitute'])
        if k == 'EinsteinVib':
            return vib.EinsteinVib(einstein_temperature=d['einstein_temperature'], interaction_energy=d['interaction_energy'])
        if k == 'DebyeVib':
            return vib.DebyeVib(debye_temperature=d['debye_temperature'], interaction_energy=d['interaction_energy'])
        if k == 'RigidRotor':
            return rot.RigidRotor(symmetrynumber=d['symmetrynumber'], rot_temperatures=list(d['rot_temperatures']),
                                  geometry=d['geometry'])
        if k == 'GroundStateElec':
            return elec.GroundStateElec(potentialenergy=d['potentialenergy'], spin=d['spin'], D0=d['D0'])
        if k == 'EmptyNucl':
            return nucl.EmptyNucl()
        if k == 'EmptyMode':
            return sm.EmptyMode()
        if k == 'ConstantMode':
            return sm.ConstantMode(**{x: d[x] for x in ('q', 'Cv', 'Cp', 'U', 'H', 'S', 'F', 'G', 'notes')})
        if k == 'GasPressureAdj':
            return emp.GasPressureAdj()
        if k == 'IdealGasEOS':
            return eos.IdealGasEOS()
        if k == 'vanDerWaalsEOS':
            return eos.vanDerWaalsEOS(a=d['a'], b=d['b'])
        if k == 'PiecewiseCovEffect':
            return cov.PiecewiseCovEffect(name_i=d['name_i'], name_j=d['name_j'], intervals=list(d['intervals']),
                                          slopes=list(d['slopes']), name=d['name'])
        if k == 'CatSite':
            return ck.CatSite(name=d['name'], site_density=d['site_density'], density=d['density'],
                              bulk_specie=d['bulk_specie'])
        if k == 'BEP':
            return bep.BEP(slope=d['slope'], intercept=d['intercept'], name=d['name'], descriptor=d['descriptor'],
                           notes=d['notes'], elements=d['elements'])
        if k == 'SingleNasa9':
            return nasa.SingleNasa9(T_low=d['T_low'], T_high=d['T_high'], a=np.array(d['a']))
        if k == 'LSR':
            return lsr.LSR(slope=d['slope'], intercept=d['intercept'], reaction=d['reaction'],
                           surf_species=d['surf_species'], gas_species=d['gas_species'])
        if k == 'StatMech':
            return sm.StatMech(name=d['name'], trans_model=self.build(d['trans']), vib_model=self.build(d['vib']),
                               rot_model=self.build(d['rot']), elec_model=self.build(d['elec']),
                               nucl_model=self.build(d['nucl']), elements=copy.deepcopy(d['elements']),
                               smiles=d['smiles'], notes=d['notes'],
                               references=self.build(d['references']) if d.get('references') else None,
                               misc_models=[self.build(m) for m in d['misc']] if d.get('misc') else None)
        if k in ('Nasa', 'Nasa9', 'Shomate'):
            s = d['scale']
            kw = dict(name=d['name'], phase=d['phase'], elements=copy.deepcopy(d['elements']), notes=d['notes'],
                      smiles=d['smiles'], misc_models=[self.build(m) for m in d['misc']] if d.get('misc') else None)
            if k == 'Nasa':
                return nasa.Nasa(T_low=200.0, T_mid=d.get('T_mid', 1000.0), T_high=3500.0, a_low=[v * s for v in H2O_LOW],
                                 a_high=[v * s for v in H2O_HIGH], n_sites=d['n_sites'],
                                 cat_site=self.build(d['cat_site']) if d.get('cat_site') else None, **kw)
            if k == 'Nasa9':
                edges = [200.0, 1000.0, 3000.0, 6000.0]
                segs = [nasa.SingleNasa9(T_low=edges[i], T_high=edges[i + 1], a=np.array([v * s * (1 + 0.01 * i) for v in N9_A]))
                        for i in range(int(d['segments']))]
                if d.get('seg_order') == 'descending':
                    segs.reverse()
                    self.ctx.probe('nasa9-segments-not-ascending')
                return nasa.Nasa9(nasas=segs, n_sites=d['n_sites'] or 1, **kw)
            return sho.Shomate(T_low=298.0, T_high=1700.0, a=np.array([v * s for v in SHO_A]), units='J/mol/K',
                               n_sites=d['n_sites'], **kw)
        if k == 'Reference':
            m = d['model']
            model = sm.StatMech(name=d['name'], trans_model=self.build(m['trans']), vib_model=self.build(m['vib']),
                                rot_model=self.build(m['rot']), elec_model=self.build(m['elec']),
                                nucl_model=self.build(m['nucl']))
            return refs.Reference(name=d['name'], elements=copy.deepcopy(d['elements']), T_ref=d['T_ref'],
                                  HoRT_ref=d['HoRT_ref'], model=model)
        if k == 'References':
            if d.get('offset') is not None:
                self.ctx.probe('references-offsets-only')
                return refs.References(offset=dict(d['offset']), references=[self.build(r) for r in d['refs']])
            return refs.References(references=[self.build(r) for r in d['refs']])
        if k in ('Reaction', 'ChemkinReaction', 'SurfaceReaction'):
            sp = shared if shared is not None else [self.build(s) for s in d['species']]
            A, B, C, TS = sp
            if d.get('share_AB'):
                self.ctx.probe('shared-species-in-reactions')
                reactants, rst = [A, A], [d['stoich'][0], d['stoich'][1]]
            else:
                reactants, rst = [A, B], [d['stoich'][0], d['stoich'][1]]
            kw = dict(reactants=reactants, reactants_stoich=rst, products=[C], products_stoich=[d['stoich'][2]],
                      transition_state=[TS] if d['ts'] else None, transition_state_stoich=[1.0] if d['ts'] else None,
                      notes=d['notes'])
            if k == 'Reaction':
                return rx.Reaction(**kw)
            kw.update(beta=d['beta'], is_adsorption=d['is_adsorption'], sticking_coeff=d['sticking_coeff'])
            if k == 'ChemkinReaction':
                return rx.ChemkinReaction(**kw)
            return orx.SurfaceReaction(id=d['id'], direction=d['direction'], **kw)
        if k in ('Reactions', 'PhaseDiagram'):
            shared_sp = None
            rxs = []
            for rd in d['reactions']:
                if d.get('share'):
                    if shared_sp is None:
                        shared_sp = [self.build(s) for s in rd['species']]
                    else:
                        self.ctx.probe('shared-species-in-reactions')
                    rxs.append(self.build(rd, shared=shared_sp))
                else:
                    rxs.append(self.build(rd))
            if k == 'Reactions':
                return rx.Reactions(reactions=rxs)
            return pd.PhaseDiagram(reactions=rxs, norm_factors=d.get('norm_factors'))
        raise ValueError(k)

    @staticmethod
    def depth(d):
        if isinstance(d, dict):
            return (1 if 'k' in d else 0) + max([WorldC11.depth(v) for v in d.values()] + [0])
        if isinstance(d, list):
            return max([WorldC11.depth(v) for v in d] + [0])
        return 0

    # observation -------------------------------------------------------------
    def observe(self, obj):
        """{label: outcome} for every get_* whose required parameters the pool can fill, plus identifying attributes."""
        out = {}
        # (first of all, before anything else has been asked of the object: a temperature on a segment boundary)
        for nm in ('get_CpoR', 'get_HoRT', 'get_SoR'):
            fn = getattr(obj, nm, None)
            if callable(fn) and type(obj).__name__ in ('Nasa', 'Nasa9', 'Shomate'):
                try:
                    out[nm + '@1000K'] = _plain(fn(T=1000.0))       # a segment boundary of the generated species
                    tm = getattr(obj, 'T_mid', None)
                    if isinstance(tm, float):
                        out[nm + '@T_mid'] = _plain(fn(T=tm))
                except Exception as e:
                    out[nm + '@1000K'] = ('EXC', type(e).__name__)
        for nm in sorted(n for n in dir(type(obj)) if n.startswith('get_')):
            fn = getattr(obj, nm, None)
            if not callable(fn):
                continue
            try:
                sig = inspect.signature(fn)
            except (TypeError, ValueError):
                continue
            kw = {}
            ok = True
            for p in sig.parameters.values():
                if p.kind in (p.VAR_KEYWORD, p.VAR_POSITIONAL):
                    continue
                if p.name in POOL:
                    if p.default is p.empty or p.name in ('T', 'P', 'x', 'V', 'n'):
                        kw[p.name] = POOL[p.name]
                        if p.name == 'units' and nm.split('_')[-1] in ('Cv', 'Cp', 'S') or \
                                (p.name == 'units' and nm.startswith('get_delta_') and nm[-1] in 'vpS'):
                            kw['units'] = 'J/mol/K'
                elif p.default is p.empty:
                    ok = False
                    break
            if not ok:
                continue
            if any(p.kind == p.VAR_KEYWORD for p in sig.parameters.values()):
                kw.setdefault('T', POOL['T'])
                if type(obj).__name__ in ('StatMech', 'Nasa', 'Nasa9', 'Shomate', 'Reaction', 'ChemkinReaction',
                                          'SurfaceReaction') and nm.split('_')[-1] in ('HoRT', 'GoRT', 'SoR', 'H', 'G', 'S'):
                    kw.setdefault('x', POOL['x'])       # a coverage, for whatever coverage models are attached
                    kw.setdefault('P', POOL['P'])
            try:
                v = fn(**kw)
                out[nm] = _plain(v)
            except Exception as e:
                out[nm] = ('EXC', type(e).__name__)
        ident = {}
        for a in IDENT:
            if hasattr(obj, a):
                try:
                    ident[a] = _plain(getattr(obj, a))
                except Exception as e:
                    ident[a] = ('EXC', type(e).__name__)
        mm = getattr(obj, 'misc_models', None)
        if isinstance(mm, (list, tuple)):
            ident['attached-models'] = [type(x).__name__ for x in mm]
        nasas = getattr(obj, 'nasas', None)
        if isinstance(nasas, (list, tuple)):
            try:
                ident['segments-in-order'] = [[float(n.T_low), float(n.T_high)] for n in nasas]
            except Exception as e:
                ident['segments-in-order'] = ('EXC', type(e).__name__)
        to_string = getattr(obj, 'to_string', None)
        if callable(to_string):
            try:
                ident['to_string'] = to_string()
            except Exception as e:
                ident['to_string'] = ('EXC', type(e).__name__)
        return out, ident

    def compare(self, what, before, after, cls_before, obj_after):
        if type(obj_after) is not cls_before:
            raise Violation('same-class', '%s: a %s came back as %s' % (what, cls_before.__name__,
                                                                     type(obj_after).__name__))
        g0, i0 = before
        g1, i1 = after
        for nm in sorted(g0):
            if nm not in g1:
                raise Violation('same-getters', '%s: getter %s disappeared' % (what, nm))
            if not _same(g0[nm], g1[nm]):
                raise Violation('same-getters', '%s: %s.%s gave %r before and %r after' % (
                    what, cls_before.__name__, nm, _short(g0[nm]), _short(g1[nm])))
        for a in sorted(i0):
            if a not in i1 or not _same_ident(i0[a], i1[a]):
                raise Violation('same-attributes', '%s: %s.%s was %r, is %r' % (
                    what, cls_before.__name__, a, _short(i0[a]), _short(i1.get(a, '<missing>'))))

    # ------------------------------------------------------------------ apply
    def apply(self, op):
        a = op['args']
        name = op['op']
        ctx = self.ctx
        pj = self.pj
        if name == 'build':
            if a['id'] in self.obj:
                raise Skip()
            d = a['desc']
            obj = self.build(d)       # constructors are not C11's subject: a failure here is a harness matter
            self.obj[a['id']] = obj
            depth = self.depth(d)
            self.meta[a['id']] = {'kind': d['k'], 'cycles': 0, 'depth': depth,
                                  'has_refs': d['k'] == 'References' or (d['k'] == 'StatMech' and bool(d.get('references')))}
            ctx.probe('class-' + d['k'])
            if depth >= 3:
                ctx.probe('nested-depth>=3')
            if d['k'] == 'StatMech' and d.get('references'):
                ctx.probe('statmech-with-references')
            if d['k'] == 'StatMech' and d.get('misc'):
                ctx.probe('statmech-with-misc-models')
            if d['k'] in ('Nasa', 'Nasa9', 'Shomate') and d.get('misc'):
                ctx.probe('empirical-with-cov-model')
            return d['k']
        if a['id'] not in self.obj:
            raise Skip()
        obj = self.obj[a['id']]
        m = self.meta[a['id']]
        kind = m['kind']
        if name == 'edit' and a['attr'] == 'clear_offset()':
            refs = obj if kind == 'References' else getattr(obj, 'references', None)
            if refs is None or not callable(getattr(refs, 'clear_offset', None)):
                raise Skip()
            refs.clear_offset()          # a documented mutator: the offsets are dropped until the next fit
            ctx.probe('references-offsets-cleared')
            m['edited'] = True
            return 'cleared'
        if name == 'edit' and a['attr'] == 'misc_models.append()':
            mm = getattr(obj, 'misc_models', None)
            if not isinstance(mm, list):
                raise Skip()
            import pmutt.mixture.cov as _cov
            mm.append(_cov.PiecewiseCovEffect(name_i=getattr(obj, 'name', 'X'), name_j='O*', intervals=[0.0, 0.4],
                                              slopes=[a['value'], -a['value']]))
            ctx.probe('model-appended-after-construction')
            m['edited'] = True
            return 'appended'
        if name == 'edit' and a['attr'] == 'touch()':
            for nm in ('get_CpoR', 'get_HoRT', 'get_SoR'):
                fn = getattr(obj, nm, None)
                if callable(fn):
                    try:
                        fn(T=a['value'])
                    except Exception:
                        pass
            ctx.probe('evaluated-before-encoding')
            return 'touched'
        if name == 'edit' and a['attr'] == 'pop(0)':
            if not callable(getattr(obj, 'pop', None)):
                raise Skip()
            try:
                obj.pop(0)                   # documented to be refused: the first breakpoint cannot be removed
            except ValueError:
                ctx.probe('refused-mutator-before-encoding')
            m['edited'] = True
            return 'refused'
        if name == 'edit' and a['attr'] == 'species.name':
            rx = obj
            if kind == 'Reactions':
                rx = obj.reactions[0] if getattr(obj, 'reactions', None) else None
            sp = (getattr(rx, 'reactants', None) or [None])[0] if rx is not None else None
            if sp is None or not hasattr(sp, 'name'):
                raise Skip()
            # a nested species is edited in place after the reaction may already have been encoded once
            sp.name = a['value']
            if hasattr(sp, 'notes'):
                try:
                    sp.notes = 'edited after the first encoding'
                except Exception:
                    pass
            ctx.probe('nested-species-edited')
            m['edited'] = True
            return 'nested edit'
        if name == 'cold_decode':
            return self._cold_decode(obj, kind)
        if name == 'edit':
            if not hasattr(obj, a['attr']):
                raise Skip()
            try:
                setattr(obj, a['attr'], a['value'])
            except Exception:
                raise Skip()
            m['edited'] = True
            return 'edited'
        if name == 'cycle':
            if m.get('edited'):
                ctx.probe('edit-then-encode')
            before = self.observe(obj)
            cls0 = type(obj)
            cur = obj
            first_text = None
            for i in range(int(a['n'])):
                what = '%s cycle %d (%s)' % (kind, m['cycles'] + 1, a['via'])
                if a['via'] == 'text':
                    ctx.probe('via-text')
                    text = self.real(json.dumps, cur, cls=pj.pmuttEncoder, _what='json.dumps(%s, cls=pmuttEncoder)' % kind,
                                     _inv='encodes')
                    if text == 'null' or text is None:
                        raise Violation('encodes', '%s: the encoder produced %r' % (what, text))
                    cur = self.real(json.loads, text, object_hook=pj.json_to_pmutt,
                                    _what='json.loads(text of %s, object_hook=json_to_pmutt)' % kind, _inv='decodes')
                else:
                    ctx.probe('via-dict')
                    d = self.real(cur.to_dict, _what='%s.to_dict' % kind, _inv='encodes')
                    d = self.real(json.loads, self.real(json.dumps, d, cls=pj.pmuttEncoder, _what='json.dumps(to_dict of %s)' % kind,
                                                        _inv='encodes'), _what='json.loads', _inv='decodes')
                    snap = copy.deepcopy(d)
                    cur = self.real(pj.json_to_pmutt, d, _what='json_to_pmutt(dict of %s)' % kind, _inv='decodes')
                    if d != snap:
                        raise Violation('input-dict-unchanged', '%s: json_to_pmutt altered the dictionary it was given '
                                        '(keys now %s, were %s)' % (what, sorted(d)[:8], sorted(snap)[:8]))
                m['cycles'] += 1
                self.compare(what, before, self.observe(cur), cls0, cur)
            if m['cycles'] >= 3:
                ctx.probe('cycles>=3')
            self.obj[a['id']] = cur
            return m['cycles']
        if name == 'decode_twice':
            ctx.probe('decode-same-dict-twice')
            before = self.observe(obj)
            cls0 = type(obj)
            d = self.real(obj.to_dict, _what='%s.to_dict' % kind, _inv='encodes')
            d = json.loads(self.real(json.dumps, d, cls=pj.pmuttEncoder, _what='json.dumps(to_dict of %s)' % kind,
                                     _inv='encodes'))
            snap = copy.deepcopy(d)
            o1 = self.real(pj.json_to_pmutt, d, _what='json_to_pmutt(dict of %s)' % kind, _inv='decodes')
            if d != snap:
                raise Violation('input-dict-unchanged', '%s: json_to_pmutt altered the dictionary it was given '
                                '(keys now %s, were %s)' % (kind, sorted(d)[:8], sorted(snap)[:8]))
            self.compare('%s first decode' % kind, before, self.observe(o1), cls0, o1)
            # the caller goes on to use (and edit) the first decoded object; a later decode of the same dictionary must
            # not see those edits.  Attributes are re-bound, never mutated in place, so the input dictionary is not touched.
            if self._scramble(o1):
                ctx.probe('scrambled-first-decode')
            if d != snap:
                raise Violation('input-dict-unchanged', '%s: re-binding attributes of the decoded object changed the '
                                'dictionary it was decoded from' % kind)
            o2 = self.real(pj.json_to_pmutt, d, _what='json_to_pmutt(same dict of %s, second time)' % kind,
                           _inv='decodes')
            self.compare('%s second decode of the same dictionary' % kind, before, self.observe(o2), cls0, o2)
            return 'twice'
        raise Skip()

    COLD_SCRIPT = (
        "import sys, os, json\n"
        "sys.path.insert(0, os.environ['SIMLAB_REPO'])\n"
        "sys.path.insert(1, os.environ['SIMLAB_HOME'])\n"
        "from pmutt.io.json import json_to_pmutt\n"              # the only pMuTT import a reader script needs
        "obj = json.loads(sys.stdin.read(), object_hook=json_to_pmutt)\n"
        "from simlab.worlds.c11 import WorldC11\n"
        "g, i = WorldC11.observe(None, obj)\n"
        "sys.stdout.write(json.dumps({'cls': type(obj).__name__, 'g': g, 'i': i}))\n")

    def _cold_decode(self, obj, kind):
        """The process that wrote the JSON text is gone; a fresh interpreter that has imported nothing but
        pmutt.io.json decodes it (restart with only the durable text surviving)."""
        import os
        import subprocess
        import sys
        ctx = self.ctx
        self.cold_done = True
        ctx.probe('decode-in-a-fresh-interpreter')
        before = json.loads(json.dumps(list(self.observe(obj))))
        text = self.real(json.dumps, obj, cls=self.pj.pmuttEncoder, _what='json.dumps(%s, cls=pmuttEncoder)' % kind,
                         _inv='encodes')
        env = dict(os.environ)
        env['SIMLAB_REPO'] = os.environ.get('SIMLAB_REPO', '/repo')
        env['SIMLAB_HOME'] = os.path.dirname(os.path.dirname(os.path.dirname(os.path.abspath(__file__))))
        p = subprocess.run([sys.executable, '-c', self.COLD_SCRIPT], input=text, env=env, capture_output=True, text=True,
                           timeout=120)
        if p.returncode != 0:
            last = (p.stderr.strip().splitlines() or ['?'])[-1]
            raise Violation('decodes', 'a fresh interpreter that imported only pmutt.io.json failed to decode the %s text: %s' % (
                kind, last[:200]))
        got = json.loads(p.stdout)
        if got['cls'] != type(obj).__name__:
            raise Violation('same-class', '%s decoded in a fresh interpreter (only pmutt.io.json imported): a %s came back as %s' % (
                kind, type(obj).__name__, got['cls']))
        g0, i0 = before
        what = '%s decoded in a fresh interpreter' % kind
        for nm in sorted(g0):
            if nm not in got['g'] or not _same(g0[nm], got['g'][nm]):
                raise Violation('same-getters', '%s: %s.%s gave %r before and %r after' % (
                    what, kind, nm, _short(g0[nm]), _short(got['g'].get(nm, '<missing>'))))
        for a in sorted(i0):
            if a not in got['i'] or not _same_ident(i0[a], got['i'][a]):
                raise Violation('same-attributes', '%s: %s.%s was %r, is %r' % (
                    what, kind, a, _short(i0[a]), _short(got['i'].get(a, '<missing>'))))
        return 'cold ' + got['cls']

    def _scramble(self, obj, depth=0, seen=None):
        """Re-bind numeric attributes of a decoded object graph to other values (no in-place mutation)."""
        import numpy as np
        seen = seen if seen is not None else set()
        if id(obj) in seen or depth > 3 or not hasattr(obj, '__dict__'):
            return 0
        seen.add(id(obj))
        n = 0
        for k, v in list(vars(obj).items()):
            try:
                if isinstance(v, bool) or v is None or isinstance(v, str):
                    continue
                if isinstance(v, (int, float)):
                    setattr(obj, k.lstrip('_') if hasattr(type(obj), k.lstrip('_')) else k, v * 1.5 + 1)
                    n += 1
                elif isinstance(v, dict) and v and all(isinstance(x, (int, float)) and not isinstance(x, bool) for x in v.values()):
                    setattr(obj, k, {kk: vv * 1.5 + 1 for kk, vv in v.items()})
                    n += 1
                elif isinstance(v, np.ndarray) and v.dtype.kind == 'f' and k.lstrip('_') not in ('vib_wavenumbers',):
                    setattr(obj, k, v * 1.5 + 1)
                    n += 1
                elif isinstance(v, (list, tuple)):
                    for x in v:
                        n += self._scramble(x, depth + 1, seen)
                else:
                    n += self._scramble(v, depth + 1, seen)
            except Exception:
                continue
        return n

    def abstract_state(self):
        return [(m['kind'], min(m['depth'], 4), min(m['cycles'], 4)) for k, m in sorted(self.meta.items())]

    def simplify(self, op):
        a = op['args']
        if op['op'] == 'cycle':
            if a['n'] > 1:
                yield {**op, 'args': {**a, 'n': 1}}
        elif op['op'] == 'build':
            d = a['desc']
            # try replacing the object by one of its nested parts
            for v in d.values():
                if isinstance(v, dict) and 'k' in v:
                    yield {**op, 'args': {**a, 'desc': v}}
                if isinstance(v, list):
                    for x in v:
                        if isinstance(x, dict) and 'k' in x:
                            yield {**op, 'args': {**a, 'desc': x}}
            for key in ('references', 'misc', 'cat_site', 'norm_factors', 'notes', 'smiles', 'D0'):
                if d.get(key) is not None:
                    yield {**op, 'args': {**a, 'desc': {**d, key: None}}}
            if d.get('reactions') and len(d['reactions']) > 1:
                nf = d.get('norm_factors')
                yield {**op, 'args': {**a, 'desc': {**d, 'reactions': d['reactions'][:1],
                                                    'norm_factors': nf[:1] if nf else nf}}}


def _short(v):
    s = repr(v)
    return s if len(s) < 160 else s[:157] + '...'


def _same_ident(a, b):
    if isinstance(a, (int, float)) and isinstance(b, (int, float)) and not isinstance(a, bool):
        return _same(a, b)
    if isinstance(a, list) and isinstance(b, list) and len(a) == len(b):
        return all(_same_ident(x, y) for x, y in zip(a, b))
    if isinstance(a, dict) and isinstance(b, dict):
        return set(a) == set(b) and all(_same_ident(a[k], b[k]) for k in a)
    return a == b
