"""Environment seams bound from outside: SimFS (builtins.open / io.open), SimClock
(pmutt.io*.datetime), SimSolver (scipy minimize).  Nothing in /repo is edited."""
import builtins
import datetime as _dt
import errno
import io
import os
import shutil
import sys
import tempfile

from .core import SimCrash, HarnessError

REAL_OPEN = builtins.open
REAL_IO_OPEN = io.open

OPEN_ERRNOS = {'ENOENT': errno.ENOENT, 'EACCES': errno.EACCES, 'ENOSPC': errno.ENOSPC,
               'EMFILE': errno.EMFILE, 'EROFS': errno.EROFS, 'EIO': errno.EIO}
_EXC = {errno.ENOENT: FileNotFoundError, errno.EACCES: PermissionError}


def _oserror(code, path):
    num = OPEN_ERRNOS[code]
    cls = _EXC.get(num, OSError)
    return cls(num, 'simulated ' + os.strerror(num), path)


def _translate(text, newline):
    if newline in (None,):
        return text.replace('\n', os.linesep)
    if newline in ('', '\n'):
        return text
    return text.replace('\n', newline)


class SimWriteFile(object):
    """Text file opened for writing inside the simulated file system."""

    def __init__(self, fs, path, mode, newline, fault, encoding=None, errors=None):
        self.fs = fs
        self.name = path
        self.mode = mode
        self._newline = newline
        # the bytes that reach the disk are the text under the encoding and error handler the caller asked for
        self.encoding = encoding or 'utf-8'
        self.errors = errors or 'strict'
        self._fault = fault
        self._buf = []
        self._written = 0
        self.closed = False
        self._dead = False
        self._pos = 0             # the handle's position in the file (bytes)
        self._pending = ''        # text the "operating system" refused: it is still in the handle's buffer
        self._crashed = False
        self._fd = None
        fs._handles.append(self)

    # durable side ------------------------------------------------------
    def _to_disk(self, text):
        if text:
            with REAL_OPEN(self.name, 'ab') as f:
                f.write(_translate(text, self._newline).encode(self.encoding, self.errors))
                self._pos = f.tell()
            self.fs.stamp(self.name)

    def _flush_all(self):
        text = ''.join(self._buf)
        self._buf = []
        self._to_disk(text)

    # file API ----------------------------------------------------------
    def write(self, s):
        if not isinstance(s, str):
            raise TypeError('write() argument must be str, not %s' % type(s).__name__)
        if self.closed:
            raise ValueError('I/O operation on closed file.')
        s.encode(self.encoding, self.errors)          # an unencodable character is refused at write(), as by a real file
        f = self._fault
        if f is not None and f['kind'] in ('write_error', 'crash_mid_write') and not f.get('fired'):
            k = f['k']
            if isinstance(k, float):
                k = int(k * len(s))
            else:
                k = k - self._written
            if 0 <= k <= len(s) and (k < len(s) or f.get('at_end')):
                self._buf.append(s[:k])
                self._flush_all()
                f['fired'] = True
                f['prefix_chars'] = self._written + k
                self.fs.fired(f['kind'])
                self._dead = True
                if f['kind'] == 'crash_mid_write':
                    self._crashed = True
                    raise SimCrash('mid_write')
                self._pending = s[k:]
                raise _oserror(f.get('errno', 'ENOSPC'), self.name)
        self._buf.append(s)
        self._written += len(s)
        return len(s)

    def writelines(self, lines):
        for line in lines:
            self.write(line)

    def flush(self):
        if self.closed:
            raise ValueError('I/O operation on closed file.')
        if not self._dead:
            self._flush_all()

    def _forget(self):
        if self._fd is not None:
            try:
                os.close(self._fd)
            except OSError:
                pass
            self._fd = None
        try:
            self.fs._handles.remove(self)
        except ValueError:
            pass

    def close(self):
        if self.closed:
            return
        self.closed = True
        self._forget()
        if self._dead:
            self._buf = []
            self._pending = ''
            return
        f = self._fault
        if f is not None and f['kind'] in ('close_error', 'crash_pre_close') and not f.get('fired'):
            text = ''.join(self._buf)
            keep = int(float(f.get('k', 0.0)) * len(text))
            self._buf = []
            self._to_disk(text[:keep])
            f['fired'] = True
            f['prefix_chars'] = keep
            self.fs.fired(f['kind'])
            self._dead = True
            if f['kind'] == 'crash_pre_close':
                self._crashed = True
                raise SimCrash('pre_close')
            raise _oserror(f.get('errno', 'EIO'), self.name)
        self._flush_all()

    def __enter__(self):
        return self

    def __exit__(self, et, ev, tb):
        self.close()
        return False

    def writable(self):
        return True

    def readable(self):
        return False

    def fileno(self):
        # a real descriptor of the scratch file, so that os.fsync(f.fileno()) works as it would on a real file
        if self.closed:
            raise ValueError('I/O operation on closed file')
        if self._fd is None:
            self._fd = os.open(self.name, os.O_RDONLY)
        return self._fd

    def isatty(self):
        return False

    def tell(self):
        return self._written


class SimReadFile(object):
    """Text file opened for reading inside the simulated file system."""

    def __init__(self, fs, path, real, fault):
        self.fs = fs
        self.name = path
        self._real = real
        self._fault = fault
        self._lines = 0
        self.closed = False

    def _maybe_fail(self):
        f = self._fault
        if f is not None and f['kind'] == 'read_error' and not f.get('fired') and self._lines >= f['k']:
            f['fired'] = True
            self.fs.fired('read_error')
            raise _oserror(f.get('errno', 'EIO'), self.name)

    def __iter__(self):
        return self

    def __next__(self):
        self._maybe_fail()
        line = self._real.readline()
        if line == '':
            raise StopIteration
        self._lines += 1
        return line

    def readline(self, *a):
        self._maybe_fail()
        line = self._real.readline(*a)
        if line:
            self._lines += 1
        return line

    def readlines(self, hint=-1):
        # as io.IOBase.readlines: with a positive hint, stop once the lines read so far total that many characters
        out = []
        total = 0
        for line in self:
            out.append(line)
            total += len(line)
            if hint is not None and hint > 0 and total >= hint:
                break
        return out

    def read(self, n=-1):
        if n is not None and n >= 0:
            self._maybe_fail()
            return self._real.read(n)
        return ''.join(self.readlines())

    def close(self):
        self.closed = True
        self._real.close()

    def __enter__(self):
        return self

    def __exit__(self, et, ev, tb):
        self.close()
        return False

    def readable(self):
        return True

    def writable(self):
        return False

    def seek(self, *a):
        return self._real.seek(*a)

    def tell(self):
        return self._real.tell()


class SimFS(object):
    """Fault-injecting shim over a real per-run scratch directory."""

    def __init__(self, ctx):
        self.ctx = ctx
        base = '/dev/shm' if os.path.isdir('/dev/shm') and os.access('/dev/shm', os.W_OK) else tempfile.gettempdir()
        self.root = tempfile.mkdtemp(prefix='simlab-%d-' % os.getpid(), dir=base)
        self._armed = None
        self._installed = False
        self.opens = 0
        self.passthrough = 0
        self._handles = []       # write handles the code under test has not closed (yet)
        ctx.fs = self
        sw = getattr(ctx, 'swarm', None) or {}
        # modification times come from the simulated clock at the granularity of the simulated file system (1 s: ext3,
        # HFS+; 2 s: FAT; 1 ms: modern); None leaves the real clock's time stamps alone
        self.mtime_res = sw.get('fs_mtime_res', 1.0)
        # the locale's encoding on the writer's side (used when open() is given none); readers default to UTF-8
        self.write_encoding = sw.get('fs_write_encoding', 'utf-8')
        self.enc = {}            # path -> encoding the file was written with

    def finalize_leaked(self):
        """Garbage collection reaches the write handles the code left open (an error path that skipped close()): whatever
        was still in their buffers is written now, at the position the handle had - into whatever the file has become."""
        n = 0
        for h in list(self._handles):
            if h.closed:
                continue
            h.closed = True
            h._forget()
            if h._crashed:
                continue                  # the process died with the handle: nothing is flushed
            text = h._pending + ''.join(h._buf) if h._dead else ''.join(h._buf)
            h._buf, h._pending = [], ''
            if not text:
                continue
            data = _translate(text, h._newline).encode(h.encoding, 'replace')
            try:
                with REAL_OPEN(h.name, 'rb') as f:
                    cur = f.read()
            except OSError:
                cur = b''
            off = len(cur) if h.mode == 'a' else min(len(cur), h._pos)
            new = cur[:off] + data + cur[off + len(data):]
            with REAL_OPEN(h.name, 'wb') as f:
                f.write(new)
            self.stamp(h.name)
            self.ctx.faults['leaked_handle_flushed_late'] += 1
            n += 1
        self._handles = []
        return n

    def stamp(self, path):
        clock = getattr(self.ctx, 'clock', None)
        if clock is None or self.mtime_res is None:
            return
        try:
            sec = (clock.t - _dt.datetime(1970, 1, 1)).total_seconds()
            sec = (sec // self.mtime_res) * self.mtime_res
            sec = sec % float(2 ** 31)
            os.utime(path, (sec, sec))
        except (OverflowError, OSError, ValueError):
            pass

    def path(self, name):
        return os.path.join(self.root, name)

    def fired(self, kind):
        self.ctx.faults[kind] += 1

    def arm(self, fault):
        """fault applies to the next open() of a path inside the root."""
        self._armed = dict(fault) if fault else None
        self._last = None

    def disarm(self):
        f = self._armed
        self._armed = None
        if f is not None and f.get('ever'):
            f['fired'] = True
        return f

    def last_fault(self):
        f = self._last
        if f is not None and f.get('ever'):
            f['fired'] = True
        return f

    def _inside(self, file):
        try:
            p = os.fspath(file)
        except TypeError:
            return False
        if isinstance(p, bytes):
            return False
        return os.path.abspath(p).startswith(self.root + os.sep)

    def _open(self, file, mode='r', buffering=-1, encoding=None, errors=None, newline=None, closefd=True,
              opener=None):
        if not self._inside(file):
            return REAL_OPEN(file, mode, buffering, encoding, errors, newline, closefd, opener)
        path = os.path.abspath(os.fspath(file))
        m = mode.replace('t', '')
        if m not in ('r', 'w', 'a', 'x'):
            self.passthrough += 1
            return REAL_OPEN(file, mode, buffering, encoding, errors, newline, closefd, opener)
        self.opens += 1
        fault = self._armed
        if fault is not None and fault.get('persistent'):
            # the condition lasts (a full disk, a read-only mount): every open during the call meets it again
            if fault.get('fired'):
                fault['ever'] = True
            fault['fired'] = False
        else:
            self._armed = None
        self._last = fault
        if m == 'r':
            if fault is not None and fault['kind'] == 'read_open_error':
                fault['fired'] = True
                self.fired('read_open_error')
                raise _oserror(fault.get('errno', 'EIO'), path)
            real = REAL_OPEN(path, 'r', newline=newline, encoding=encoding or 'utf-8', errors=errors)
            return SimReadFile(self, path, real, fault)
        # write modes
        if fault is not None:
            if fault['kind'] == 'open_error':
                fault['fired'] = True
                self.fired('open_error')
                raise _oserror(fault.get('errno', 'EACCES'), path)
            if fault['kind'] == 'crash_pre_open':
                fault['fired'] = True
                self.fired('crash_pre_open')
                raise SimCrash('pre_open')
        if m == 'x' and os.path.exists(path):
            raise FileExistsError(errno.EEXIST, 'File exists', path)
        if m in ('w', 'x'):
            REAL_OPEN(path, 'w').close()          # truncation is durable at open
            self.stamp(path)
        elif not os.path.exists(path):
            REAL_OPEN(path, 'w').close()
            self.stamp(path)
        self.enc[path] = encoding or self.write_encoding
        if fault is not None and fault['kind'] == 'crash_post_open':
            fault['fired'] = True
            self.fired('crash_post_open')
            raise SimCrash('post_open')
        return SimWriteFile(self, path, m, newline, fault, encoding or self.write_encoding, errors)

    def install(self):
        if self._installed:
            return
        builtins.open = self._open
        io.open = self._open
        self._installed = True

    def uninstall(self):
        builtins.open = REAL_OPEN
        io.open = REAL_IO_OPEN
        self._installed = False

    def durable(self, name):
        """Raw durable text of a file (no newline translation), or None."""
        p = self.path(name)
        if not os.path.exists(p):
            return None
        with REAL_OPEN(p, 'rb') as f:
            return f.read().decode(self.enc.get(p, 'utf-8'), 'replace')      # the text its writer put there

    def cleanup(self):
        self.uninstall()
        for h in list(self._handles):
            h._forget()
        shutil.rmtree(self.root, ignore_errors=True)

    _last = None


# ------------------------------------------------------------------ clock

class _DateTimeClassShim(object):
    def __init__(self, clock):
        self._clock = clock

    def now(self, tz=None):
        return self._clock.read()

    def __getattr__(self, name):
        return getattr(_dt.datetime, name)

    def __call__(self, *a, **kw):
        return _dt.datetime(*a, **kw)


class _DateTimeModuleShim(object):
    def __init__(self, clock):
        self.datetime = _DateTimeClassShim(clock)

    def __getattr__(self, name):
        return getattr(_dt, name)


JUMPS = {
    'forward_hours': lambda t, r: t + _dt.timedelta(hours=r),
    'forward_years': lambda t, r: t.replace(year=min(9998, t.year + 1 + int(r) % 50)),
    'backward': lambda t, r: t - _dt.timedelta(days=1 + int(r) % 4000),
    'midnight': lambda t, r: t.replace(hour=23, minute=59, second=59, microsecond=999000 + int(r) % 1000),
    'new_year_eve': lambda t, r: t.replace(month=12, day=31, hour=23, minute=59, second=59, microsecond=999999),
    'microsecond_zero': lambda t, r: t.replace(microsecond=0),
    'year_1000': lambda t, r: t.replace(year=1000),
    'year_9999': lambda t, r: t.replace(year=9999, month=1 + int(r) % 12),
    'single_digit_day': lambda t, r: t.replace(month=1 + int(r) % 9, day=1 + int(r) % 9),
}


class SimClock(object):
    def __init__(self, ctx):
        self.ctx = ctx
        self.start = _dt.datetime(2026, 9, 28, 12, 0, 0, 123456)
        self.t = self.start
        self.covered = 0.0
        self.jumps = 0
        self.reads = 0
        self.log = []
        self._patched = []
        ctx.clock = self

    def read(self):
        self.reads += 1
        t = self.t
        if len(self.log) < 4096:
            self.log.append(t)
        self.advance(1)
        return t

    def advance(self, ms):
        try:
            self.t = self.t + _dt.timedelta(milliseconds=ms)
            self.covered += ms / 1000.0
        except OverflowError:
            self.t = self.start

    def jump(self, kind, r=1):
        t0 = self.t
        try:
            self.t = JUMPS[kind](self.t, r)
        except (ValueError, OverflowError):
            self.t = self.start
        if self.t.year < 1000:          # strftime('%Y') is not zero-padded below 1000; out of scope
            self.t = self.t.replace(year=1000, day=min(self.t.day, 28))
        self.jumps += 1
        self.covered += abs((self.t - t0).total_seconds())
        self.ctx.faults['clock_' + kind] += 1

    def elapsed(self):
        return self.covered

    def install(self):
        import pmutt.io as pio
        import pmutt.io.thermdat as pth
        import pmutt.io.chemkin as pck
        for mod, kind in ((pio, 'module'), (pck, 'module'), (pth, 'class')):
            if hasattr(mod, 'datetime'):
                old = mod.datetime
                # a refactor may change how the module imports datetime; follow what is there
                is_module = getattr(old, '__name__', '') == 'datetime' and hasattr(old, 'datetime')
                mod.datetime = _DateTimeModuleShim(self) if is_module else _DateTimeClassShim(self)
                self._patched.append((mod, old))

    def uninstall(self):
        for mod, old in self._patched:
            mod.datetime = old
        self._patched = []


# ------------------------------------------------------------------ solver

SLSQP_MODES = {2: 'More equality constraints than independent variables', 3: 'More than 3*n iterations in LSQ subproblem',
               4: 'Inequality constraints incompatible', 5: 'Singular matrix E in LSQ subproblem',
               6: 'Singular matrix C in LSQ subproblem', 7: 'Rank-deficient equality constraint subproblem HFTI',
               8: 'Positive directional derivative for linesearch', 9: 'Iteration limit reached'}


class SimSolver(object):
    """Wraps pmutt.equilibrium._equilibrium.minimize with an outcome policy."""

    def __init__(self, ctx):
        self.ctx = ctx
        self.policy = None
        self.last_result = None
        self.results = []
        self.calls = 0
        self._patched = []

    def install(self):
        import pmutt.equilibrium._equilibrium as eq
        real = eq.minimize
        sim = self

        def wrapped(*a, **kw):
            sim.calls += 1
            pol = sim.policy          # stays in force until the world clears it (covers retries/restarts)
            if pol is None or pol['kind'] == 'pass':
                res = real(*a, **kw)
            elif pol['kind'] == 'iter_cap':
                opts = dict(kw.get('options') or {})
                opts['maxiter'] = int(pol['n'])
                kw = dict(kw, options=opts)
                res = real(*a, **kw)
                sim.ctx.faults['solver_iter_cap'] += 1
            elif pol['kind'] == 'early_stop':
                opts = dict(kw.get('options') or {})
                opts['ftol'] = 1e-2
                kw = dict(kw, options=opts)
                res = real(*a, **kw)
                sim.ctx.faults['solver_early_stop'] += 1
            elif pol['kind'] == 'fail_status':
                # the routine gives up with one of SLSQP's failure exit modes at a point that is not the optimum:
                # 'cap'  - where the real iteration stands after n steps (status re-labelled),
                # 'null' - the optimum displaced along a direction that keeps every linear constraint satisfied
                import numpy as _np
                if pol.get('how', 'cap') == 'cap':
                    opts = dict(kw.get('options') or {})
                    opts['maxiter'] = int(pol.get('n', 3))
                    res = real(*a, **dict(kw, options=opts))
                    changed = not res.success
                else:
                    res = real(*a, **kw)
                    changed = False
                    con = kw.get('constraints')
                    con = con[0] if isinstance(con, (list, tuple)) else con
                    x = _np.asarray(res.x, dtype=float)
                    try:
                        J = _np.atleast_2d(_np.asarray(con['jac'](x), dtype=float))
                        u, sv, vt = _np.linalg.svd(J)
                        rank = int((sv > 1e-10 * max(sv.max(), 1e-300)).sum())
                        if rank < vt.shape[0]:
                            z = vt[rank]
                            lo = _np.array([b_[0] for b_ in kw['bounds']], dtype=float)
                            hi = _np.array([b_[1] for b_ in kw['bounds']], dtype=float)
                            best = 0.0
                            for sign in (1.0, -1.0):
                                zz = sign * z
                                with _np.errstate(divide='ignore', invalid='ignore'):
                                    t = _np.where(zz > 0, (hi - x) / zz, _np.where(zz < 0, (lo - x) / zz, _np.inf))
                                tmax = float(_np.min(t))
                                if tmax > abs(best):
                                    best = sign * tmax
                            if abs(best) > 0:
                                res.x = x + float(pol.get('frac', 0.5)) * best * z
                                changed = True
                    except Exception:
                        changed = False
                if changed:
                    res.success = False
                    res.status = int(pol['status'])
                    res.message = SLSQP_MODES.get(res.status, 'simulated failure')
                    sim.ctx.faults['solver_exit_mode_%d' % res.status] += 1
            elif pol['kind'] == 'raise':
                sim.ctx.faults['solver_raise'] += 1
                sim.last_result = 'raised'
                sim.results.append('raised')
                raise ValueError('simulated solver failure')
            else:
                raise HarnessError('unknown solver policy %r' % (pol,))
            sim.last_result = res
            sim.results.append(res)
            return res

        eq.minimize = wrapped
        self._patched.append((eq, real))

    def uninstall(self):
        for mod, real in self._patched:
            mod.minimize = real
        self._patched = []


class SimAlloc(object):
    """Failing allocation at a seeded instant of a call.

    While installed, the n-th entry into a function of the code under test (a frame whose file lies under a
    ``/pmutt/`` directory) raises MemoryError inside that frame - the only thing Python promises about an allocation
    that fails.  ``count()`` runs a call un-faulted and reports how many such instants it has, so that a fraction of
    the way through can be chosen without knowing the code.  Counting and firing depend on the executed code only.
    """

    def __init__(self, ctx):
        self.ctx = ctx
        self.n = 0
        self.at = None
        self.fired_in = None

    def _trace(self, frame, event, arg):
        if event == 'call' and '/pmutt/' in frame.f_code.co_filename:
            self.n += 1
            if self.at is not None and self.n == self.at:
                self.fired_in = '%s:%s' % (frame.f_code.co_filename.rsplit('/pmutt/', 1)[1], frame.f_code.co_name)
                self.ctx.faults['alloc_error'] += 1
                raise MemoryError('simulated: allocation failed (instant %d of the call)' % self.at)
        return None

    def run(self, fn, at=None):
        """-> (instants seen, 'ok'|'memerror', value)."""
        self.n, self.at, self.fired_in = 0, at, None
        old = sys.gettrace()
        sys.settrace(self._trace)
        try:
            try:
                val = fn()
                st = 'ok'
            except MemoryError as e:
                if self.fired_in is None:
                    raise
                val, st = e, 'memerror'
        finally:
            sys.settrace(old)
        return self.n, st, val
